#!/bin/bash
# selftest/all_refactors.sh : every semantics-preserving edit against the checks of the properties it touches; no VIOLATION line is expected
cd /verif
run() { r=$1; shift; echo "== $r $*"; selftest/refactor_eval.sh selftest/refactors/$r "$@" 2>&1 | grep -E "violations=|exit=|DID NOT APPLY|passed|failed" | cut -c1-160; }
run R1_area_overlap.py C18 C03
run R2_refine_comprehension.py C02 C12
run R3_split_iterative.py C02 C12
run R4_create_stog_helper.py C06
run R5_expr_add.py C16
run R6_check_rectangles_reordered.py C01
run R7_must_be_refined_loop.py C12
run R8_force_clamp_helper.py C13
run R9_split_rectangles_helper.py C11
run R10_heule_iterative.py C07
run R11_row_interval.py C15
run R12_dump_module_order.py C04 C19
run R13_normalize_loop.py C14
run R14_layout_die_renamed_counter.py C14
run R15_spectral_layout_helper.py C14
