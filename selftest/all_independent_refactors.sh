#!/bin/bash
# selftest/all_independent_refactors.sh : behaviour-preserving patches written by independent sub-agents (digest-compared with the clean tree by their
# authors); every one must leave its property's check at exit 0 (tasks may become inapplicable, never violated / undecided / in error)
cd /verif
for f in selftest/refactors_independent/*.diff; do n=$(basename $f .diff); P=${n%-*}; out=$(selftest/patch_refactor_eval.sh $P $f 2>&1); echo "$n | $(echo "$out" | grep -E 'inapplicable tasks' | cut -c1-40) | $(echo "$out" | grep 'refactor exit')"; done
