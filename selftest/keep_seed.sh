#!/bin/bash
# selftest/keep_seed.sh <PROP> <src seed dir> <dest name> "<detected-by text>"
set -e
PROP=$1; SRC=$2; NAME=$3; DET=$4
DST=/verif/seeded/$NAME
mkdir -p $DST && cp $SRC/patch.diff $SRC/demo.py $DST/
/venv/bin/python - "$SRC/meta.json" "$DST/meta.json" "$PROP" "$DET" <<'PY'
import json,sys
src,dst,prop,det=sys.argv[1:5]
try: m=json.load(open(src))
except Exception: m={}
out=dict(property=prop, breaks=m.get("breaks", m.get("summary","")), needs_to_manifest=m.get("needs_to_manifest", m.get("needs","")), files=m.get("files",[]),
  origin="independent sub-agent given only the property text and a scratch worktree",
  confirmed_by_me="selftest/seed_eval.sh: demo.py exits 0 on the clean tree and non-zero with patch.diff applied; the 46-test suite passes with the patch; then ./check run against the patched scratch copy (FRAME_REPO)",
  detection=det)
json.dump(out,open(dst,"w"),indent=1)
PY
echo kept $DST
