#!/bin/bash
# selftest/seed_eval.sh <PROP> <seed-dir containing patch.diff demo.py> [--notests] [check args]
# Confirms a seeded change in a scratch copy of /repo: demo passes before / fails after, the 46 tests pass after; then runs the check.
set -u
PROP=$1; SD=$(realpath $2); shift 2
NOTESTS=0; if [ "${1:-}" = "--notests" ]; then NOTESTS=1; shift; fi
D=$(mktemp -d /tmp/vfseed.XXXXXX)
trap 'rm -rf "$D"' EXIT
rsync -a --exclude .git --exclude _seed /repo/ "$D/repo/"
mkdir -p "$D/repo/_seed/k" && cp "$SD"/demo.py "$D/repo/_seed/k/demo.py"
(cd "$D/repo" && PYTHONPATH="$D/repo" /venv/bin/python _seed/k/demo.py >/dev/null 2>&1); echo "demo on clean tree: exit=$? (want 0)"
(cd "$D/repo" && patch -p1 -s --no-backup-if-mismatch < "$SD/patch.diff") || { echo "PATCH FAILED"; exit 9; }
(cd "$D/repo" && PYTHONPATH="$D/repo" /venv/bin/python _seed/k/demo.py >/dev/null 2>&1); echo "demo on changed tree: exit=$? (want non-zero)"
if [ $NOTESTS = 0 ]; then (cd "$D/repo" && /venv/bin/python -m pytest -q -p no:cacheprovider --timeout=900 2>&1 | tail -1); fi
mkdir -p "$D/out"
cd /verif && FRAME_REPO="$D/repo" VF_OUT="$D/out" ./check "$PROP" "$@" > "$D/log" 2>&1
rc=$?
grep -v "^  " "$D/log" | cut -c1-250 | head -${SEED_LINES:-6}; tail -1 "$D/log" | cut -c1-250
echo "check exit=$rc"
