#!/bin/bash
# selftest/refactor_eval.sh <refactor.py> <PROP> [<PROP> ...]: a semantics-preserving edit must not raise a VIOLATION
R=$(realpath $1); shift
D=$(mktemp -d /tmp/vfref.XXXXXX); trap 'rm -rf "$D"' EXIT
rsync -a --exclude .git /repo/ "$D/repo/"
/venv/bin/python "$R" "$D/repo" || { echo "REFACTOR DID NOT APPLY"; exit 9; }
(cd "$D/repo" && /venv/bin/python -m pytest -q -p no:cacheprovider --timeout=900 2>&1 | tail -1)
mkdir -p "$D/out"
for P in "$@"; do cd /verif && FRAME_REPO="$D/repo" VF_OUT="$D/out" ./check "$P" > "$D/log" 2>&1; rc=$?; grep -c "^VIOLATION" "$D/log" | sed "s/^/$P violations=/"; grep "CHECKER-ERROR\|UNDECIDED" "$D/log" | cut -c1-220 | head -3; tail -1 "$D/log" | cut -c1-200; echo "$P exit=$rc"; done
