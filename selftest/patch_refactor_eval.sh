#!/bin/bash
# selftest/patch_refactor_eval.sh <PROP> <patch.diff> : a behaviour-preserving patch must give exit 0 (no VIOLATION, no checker error, nothing undecided)
P=$1; PD=$(realpath $2)
D=$(mktemp -d /tmp/vfref.XXXXXX); trap 'rm -rf "$D"' EXIT
rsync -a --exclude .git --exclude _refactor --exclude _seed /repo/ "$D/repo/"
(cd "$D/repo" && patch -p1 -s --no-backup-if-mismatch < "$PD") || { echo "PATCH FAILED"; exit 9; }
(cd "$D/repo" && /venv/bin/python -m pytest -q -p no:cacheprovider --timeout=900 2>&1 | tail -1)
mkdir -p "$D/out"
cd /verif && FRAME_REPO="$D/repo" VF_OUT="$D/out" ./check "$P" > "$D/log" 2>&1; rc=$?
grep -E "^VIOLATION|^CHECKER-ERROR|^UNDECIDED" "$D/log" | cut -c1-300 | head -4
tail -1 "$D/log" | cut -c1-220
python3 - "$D/out/evidence/$P.json" <<'PY'
import json,sys
try:
    e=json.load(open(sys.argv[1])); ia=e['coverage'].get('inapplicable_tasks') or []
    print("inapplicable tasks:", len(ia), [x.get('task', x) if isinstance(x, dict) else x for x in ia][:4])
except Exception as ex: print("no evidence", ex)
PY
echo "refactor exit=$rc"
