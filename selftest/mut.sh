#!/bin/bash
# selftest/mut.sh <PROP> <patch-file | -e 'file|old|new'> [extra check args]
# Runs ./check PROP against a scratch copy of /repo with the change applied; evidence/replays go to a temp dir.
set -u
PROP=$1; shift
D=$(mktemp -d /tmp/vfmut.XXXXXX)
trap 'rm -rf "$D"' EXIT
rsync -a --exclude .git /repo/ "$D/repo/"
if [ "$1" = "-e" ]; then
  IFS='|' read -r F OLD NEW <<< "$2"
  /venv/bin/python - "$D/repo/$F" "$OLD" "$NEW" <<'PY'
import sys
p,o,n=sys.argv[1:4]; s=open(p).read()
assert s.count(o)>=1, f"pattern not found: {o!r}"
open(p,'w').write(s.replace(o,n,1))
PY
  [ $? -eq 0 ] || exit 9
else
  (cd "$D/repo" && patch -p1 -s < "$1") || exit 9
fi
shift 2
mkdir -p "$D/out"
cd /verif && FRAME_REPO="$D/repo" VF_OUT="$D/out" ./check "$PROP" "$@"
rc=$?
for f in $(ls "$D"/out/replays/"$PROP"/*.json 2>/dev/null | head -3); do [ -f "$f" ] && /venv/bin/python -c "
import json,sys; r=json.load(open(sys.argv[1])); print('  replay:', r['obligation'], '| model:', json.dumps(r['witness'].get('model') if isinstance(r.get('witness'),dict) else None)[:300], '| replay:', json.dumps(r.get('replay'))[:300])" "$f"; done
echo "mutant exit=$rc"
exit $rc
