#!/bin/bash
# selftest/all_seeds.sh : applies every seeded change on a scratch copy and runs the check of its property; prints one line per seed
cd /verif
for d in seeded/*/; do n=$(basename $d); P=${n%-*}; out=$(SEED_LINES=12 selftest/seed_eval.sh $P $d --notests 2>&1); v=$(echo "$out" | grep -c "^VIOLATION"); rc=$(echo "$out" | grep "check exit" | tail -1); d1=$(echo "$out" | grep "demo on changed" ); echo "$n | $d1 | violations>=$v | $rc"; done
