#!/bin/bash
# Builds /verif/.venv: a python 3.12 venv (same interpreter as /venv, where jordicf/FRAME and its
# dependencies are installed) + z3-solver, cvc5, mpmath, jsonschema from the offline wheelhouse,
# overlaid on /venv's site-packages through a .pth file.  Idempotent, offline.
set -e
cd "$(dirname "$0")"
V=.venv
if [ -x $V/bin/python ] && $V/bin/python -c "import z3, cvc5, mpmath, ruamel.yaml, gekko, pysat" 2>/dev/null; then exit 0; fi
rm -rf $V
/venv/bin/python -m venv $V
PIP_NO_INDEX=1 $V/bin/pip install -q --no-index --find-links /opt/veriftools/wheels z3-solver cvc5 mpmath jsonschema >/dev/null
SP=$($V/bin/python -c "import sysconfig; print(sysconfig.get_paths()['purelib'])")
echo "import site; site.addsitedir('/venv/lib/python3.12/site-packages')" > "$SP/_frame_overlay.pth"
$V/bin/python -c "import z3, cvc5, mpmath, ruamel.yaml, gekko, pysat; print('verif venv ok', z3.get_version_string())"
