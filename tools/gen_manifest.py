#!/usr/bin/env python3
"""Generates /verif/MANIFEST.json from the table below (kept valid against /root/.vp/MANIFEST.schema.json)."""
import json
import os

V = os.path.dirname(os.path.dirname(os.path.abspath(__file__)))
BASE = "R-semantics (floats as exact reals) unless a leg is labelled float/delta-mode; CPython executes the real function objects with proxy numbers (vf/symx.py), builtin shims (vf/shims.py); z3/cvc5 sound; interpreter without -O"

CHECKS = {
 "C18": dict(level="proof", ref="7/C18", technique="contract-based deductive verification: VCs from exhaustive symbolic execution of the real Rectangle methods, discharged by z3 (NRA)",
   text="Every Rectangle operation named by the property is under a contract stated with plane-geometry spec functions; every control-flow path of the real methods is enumerated with fully symbolic coordinates/tolerances and each postcondition is discharged by z3 for all real inputs. rectangle_grid is bounded in structure (rows, cols <= 3), all values symbolic.",
   note=BASE + "; rectangle_grid only for grids up to 3x3"),
 "C16": dict(level="proof", ref="7/C16", technique="contract-based deductive verification: VCs over symbolic integer coefficients and symbolic assignments from the real Expr/Term/Literal/Ineq code, discharged by z3 (LIA)",
   text="val(result) = val(a) op val(b) under every assignment, normal form, frame (operands unchanged, no aliasing) for + - * and the five comparisons, for all integer coefficients/constants/multipliers. The variable structure of operands is enumerated (each of <= 2 variables absent/positive/negated; <= 3 in thorough).",
   note=BASE + "; bounded in the number of distinct variables per operand (2 quick, 3 thorough) - generalisation by the per-key locality of Expr.__add__ is an argument, not an obligation"),
 "C06": dict(level="proof", ref="7/C06", technique="contract-based deductive verification: find_location against its spec term (all paths, NRA); create_stog verified against that contract (callee stubbed by its spec) for lists of <= 3 (4) symbolic rectangles",
   text="find_location is proved equal to a closed spec term and sound/complete w.r.t. the abutment predicate of the property for all rectangles and tolerances; create_stog is proved (modularly, against the find_location contract) to return True iff some rectangle is a valid trunk, to put a valid trunk first with every other rectangle carrying the side it abuts, to clear roles otherwise, and to only permute the list - for every list of 1..3 rectangles (4 in thorough) with all coordinates symbolic.",
   note=BASE + "; list length bounded (3 quick / 4 thorough); completeness stated for rectangles whose sides exceed twice the distance tolerance"),
 "C17": dict(level="proof", ref="7/C17", technique="contract-based deductive verification over reals (totality, exact disjoint/nested cases, symmetry via ghost law-of-sines lemmas) + delta-mode rounding model for the acos domain; bounded float leg against a 40-digit oracle for bounds/accuracy",
   text="Proved for all real inputs: never raises, disjoint -> 0, nested -> pi*min(r)^2, symmetric (acos uninterpreted with sin(acos x)=sqrt(1-x^2)); proved in the IEEE standard model (every operation exact*(1+d), |d|<=2^-53): no exception (acos domain, division). Bounds and 1e-5 accuracy in the lens case are real-analysis facts outside SMT reach: covered by a BOUNDED float leg (boundary-focused doubles vs mpmath), labelled bounded in the evidence.",
   note=BASE + "; acos/sin uninterpreted with range and sin-acos axioms; no underflow/overflow in delta-mode; lens-case bounds/accuracy only bounded (24k quick / 960k thorough samples)"),
 "C02": dict(level="proof", ref="7/C02", technique="contract-based deductive verification: recursion-by-contract for _split_allocation with a symbolic number of levels, per-cell contracts of refine/uniform_refinement_depth lifted by the FLATMAP loop shape (checked on the AST each run), griddify on lattice templates with symbolic coordinates",
   text="_split_allocation: one execution of the real body with recursive calls replaced by its own contract (count 2^levels, area and area-weighted centre conserved, pieces inside and disjoint, depth, ratios inherited and fresh, attributes) for symbolic levels. refine / uniform_refinement_depth: the contribution of an arbitrary cell conserves region, per-module area and centre of mass, inherits ratios, never cuts fixed cells; iterations are independent (AST shape check), so the result is the concatenation. griddify: all of that on <= 3-cell lattice templates with all coordinates symbolic.",
   note=BASE + "; list-summary combination rules (sum/hull/disjointness of concatenations) are trusted lemmas; the Allocation constructor that follows each operation is exercised only in the bounded templates; griddify bounded to <= 3 cells"),
 "C12": dict(level="proof", ref="7/C12", technique="contract-based deductive verification: must_be_refined <=> refine changes the allocation per arbitrary cell (QUANT/FLATMAP shapes checked on the AST), exact selection and equal-halving shape via the _split_allocation recursion contract, griddify alignment on lattice templates",
   text="For an arbitrary cell (0-3 symbolic ratios, symbolic depth, fixed or not): must_be_refined(t) holds iff refine(t) is not the identity, and then the cell is really cut (no livelock state); refine splits exactly the non-empty non-fixed cells with no ratio above t into 2^levels equal cells by halving the longer side (symbolic levels) with depth raised; uniform refinement brings every refinable cell to the former maximum depth; griddify leaves no refinable cell crossed by a boundary line (1% slivers excepted) on <= 3-cell lattice templates.",
   note=BASE + "; termination is decided as absence of the demanded-but-identity state, not as progress of the optimiser loop; griddify bounded to <= 3 cells"),
 "C11": dict(level="proof", ref="7/C11", technique="contract-based deductive verification: inductive step lemmas of split_rectangles on the real split()/aspect_ratio (NRA), split_rectangles / Die.split_refinable_regions / initial_grid verified for all values on bounded structures, operation sequences",
   text="Step lemmas for an arbitrary rectangle: a half has ratio max(rho/2, 2/rho), the ratio-driven phase strictly decreases the ratio and reaches the limit, compliant rectangles keep compliant halves when rho >= 2/limit. split_rectangles, Die.split_refinable_regions, initial_grid and floorplanning_rectangles: >= n regions, each inside the region it was cut from with its tag, pairwise disjoint, exactly covering each original, ratio <= limit, blockages/fixed untouched - for all coordinates/limits on bounded structures (1-2 regions, n <= 4, at most two ratio-driven halvings; grids <= 3x3) and for sequences of operations.",
   note=BASE + "; the unbounded loop of split_rectangles is covered by the step lemmas plus bounded unrollings (no mechanical induction over the worklist); structure bounds as stated"),
 "C01": dict(level="proof", enum=True, ref="7/C01", technique="contract-based deductive verification of the die self-check (accepted <=> tiling, ASSERT-ALL) and of the constructor against that contract; input validation at tree level; bounded enumeration (real YAML text, real constructor) for 'valid => accepted and tiled'",
   text="Proved for all values: Die._check_rectangles returns normally iff the reported rectangles lie in the die (within its epsilon), overlap pairwise by at most the area tolerance and sum to the die area; the constructor runs that check once, last, on exactly the lists it reports, and reports blockages/specialised regions unchanged in order with their tags and the netlist's fixed rectangles; malformed descriptions are rejected. That a VALID description is never rejected and that the greedy ground cover is a tiling is covered by a BOUNDED leg: every layout of <= 2 (sampled 3) lattice regions on a 5x5 lattice at 5 scalings incl. 0.001 and 1/3.",
   note=BASE + "; completeness of the Hanan-grid + greedy largest-rectangle cover is only bounded (lattice layouts); ruamel.yaml trusted in the bounded leg; the self-check contract is proved for <= 3 rectangles and lifted by the assert-only loop shape"),
 "C05": dict(level="proof", ref="7/C05", technique="contract-based deductive verification at YAML-tree level: the real Netlist(tree) loader executed on document templates with symbolic numbers; derived quantities against definitions on the source document; one obligation family per defect class (defect => every path raises)",
   text="For module templates (soft with scalar / per-region area, centre, aspect ratio, 0-2 rectangles in regions; hard / flippable / fixed with 1-3 rectangles; terminals) and nets of 2-4 pins with symbolic numbers: area, per-region areas, centre (area-weighted centroid), rectangle lists, fixed rectangles and wire length (weight x sum of distances to the mean, sqrt by its defining axiom) equal their definitions; for each of 34 defect classes a well-formed document with that defect injected (offending number symbolic over its whole defective range) is rejected on every path, and the same document without defect is accepted.",
   note=BASE + "; documents are templates (bounded number of modules / rectangles / pins), names from a finite set; find_location replaced by its C06 contract, overlap/create_stog by their contracts in the 3-rectangle template; ruamel.yaml not involved (tree level)"),
 "C04": dict(level="proof", enum=True, ref="7/C04", technique="contract-based deductive verification at YAML-tree level: parse(dump(parse(t))) compared field by field with parse(t), dump repeatable, for document templates with symbolic numbers; bounded leg through the real YAML text",
   text="For every module/net template of C05 with symbolic numbers: the written tree is accepted by the reader, the reloaded design equals the original field by field (kind flags incl. flip, per-region areas, centre, aspect-ratio bounds, rectangles with regions in order, net members and weights - including weight exactly 1), writing the reloaded design and writing twice give the identical tree. The text layer is assumed (ruamel: tree -> text -> same tree) and exercised on random concrete documents in a bounded leg.",
   note=BASE + "; templates bounded (<= 2 rectangles per module, <= 5 modules); ruamel.yaml assumed to round-trip trees of dict/list/str/number/bool"),
 "C03": dict(level="proof", ref="7/C03", technique="contract-based deductive verification: per (cell, module) contract of Allocation.initial_allocation / _detect_fixed_rectangles on an arbitrary cell (FLATMAP loop shape checked on the AST), squares by the sqrt axiom, callees replaced by their C18/C06 contracts; bounded end-to-end template through the real constructors",
   text="For an arbitrary refinable cell (ground or specialised region, all coordinates symbolic) and netlists of soft modules without rectangles (square of the module's area around its centre), soft/hard modules with 1-2 rectangles: the cell's occupancy map is exactly {m: covered fraction}, a module is listed iff it covers part of the cell or zero entries are requested; a fixed module fully owns exactly its own cell ({m: 1.0}, depth 0) and is not listed elsewhere; partially covered or missing fixed cells are rejected; create_squares. End-to-end through the real Die/Allocation constructors on a bounded template.",
   note=BASE + "; the outer loop is lifted by its FLATMAP shape; 'area allocated = area of the shape on the cells' follows from the per-cell ratios by linearity given the module's rectangles are pairwise disjoint (argument, proved only on the end-to-end template); netlists bounded (<= 2 modules, <= 2 rectangles)"),
 "C07": dict(level="exploration", enum=True, ref="7/C07", technique="bounded exhaustive run-time contract checking of the real SAT layer (all assignments of all small constraints, pysat as oracle for 'extends to a model') + contract-based deductive step/base lemmas of the ROBDD construction on the real closures with symbolic coefficients",
   text="Exactness is a statement about the model set of a CNF produced by memoised recursion over a process-wide store; it is decided by exhaustive enumeration up to the stated bound, not proved. Deductive part (all integer coefficients, all assignments): the if/else propagation closures of both constructions, the base case, maxsum and the isclause shortcut are exact for lists of <= 3 terms; the generic recursion constructrobdd and the one-directional Tseitin encoding _codifyrobdd are covered by the bounded leg only.",
   note="pysat/Minisat22 trusted as SAT oracle; bounded: <= 3 literals (4 thorough), coefficients in [-3,3], at-most-one groups <= 9 (12), random systems; all encodings share one process (history dimension)"),
 "C08": dict(level="exploration", enum=True, ref="7/C08", technique="bounded exhaustive run-time contract checking: the CNF built by the real rect.solve is captured and ALL its models (projected on the box/cell variables) are compared with a brute-force enumeration of the k-box single-trunk orthogons; cost-bound behaviour of solve checked against the same enumeration",
   text="The claim is about the whole model set of a SAT formula built by string-keyed imperative code for every grid; no contract within reach expresses it for unbounded grids, so it is decided by complete enumeration on small lattices (uniform / non-uniform, origin 0 or not, integer / fractional / decimal-step sizes, up to 4x3 and 5x2 cells, k = 1..3, occupancies over {0, 0.5, 1}). Nothing is proved beyond the bound.",
   note="pysat trusted; the greedy helper (Windows DLL) is not involved: rect.solve is called with a plain carrier object; lattices only (allocation cells forming a full grid)"),
 "C15": dict(level="exploration", enum=True, ref="7/C15", technique="bounded exhaustive run-time contract checking: every 0/1 grid up to 4x4 (4x5/5x4 thorough) against a brute-force decomposability oracle and a partition/abutment checker; every hole-free lattice polygon up to 4x4 through strop_decomposition and create_stog; deductive leaf contracts for Interval / StropRectangle",
   text="Existence and validity of a decomposition are combinatorial statements over grids; they are enumerated completely up to the bound (74 322 grids in quick; about 2.1 million in thorough) plus random 6x6 grids. Only the loop-free integer leaves (Interval.intersection / length, StropRectangle.area) are proved for all integers.",
   note="bounded in grid size; numpy arrays as vertices not exercised (Point lists only); create_stog is the real one (C06)"),
 "C09": dict(level="proof", enum=True, ref="7/C09", technique="contract-based deductive verification of the constraint system built by the real netlist_to_utils + Model.first_build_model: every Equation is read back as an expression tree, translated into z3 (translator cross-validated against ExpressionTree.evaluate on every run) and 'legal => met' / 'met => legal' are discharged in NRA for ALL configurations of each instance",
   text="For each instance (soft modules with branches on every side, hard with branch given with float and with int numbers, fixed with branch, singles; fractional coordinates): with all rectangle variables symbolic, every equation of the built model follows from the legality clauses written from the property, and every legality clause (inside die, ratio, area, attachment within extent, order along a side, inter-module non-overlap up to the smoothing tolerance tau, congruence of hard modules, fixed in place) follows from the equations, with slack 0 and the 1e-6 of is_equation_met. The input configuration of each instance is met (bounded leg).",
   note=BASE + "; instances (netlist constants) are enumerated, not symbolic; the per-iteration step caps ('radius' group) and the time pin are not part of the legality statement; GEKKO is only used to build the model, nothing is solved"),
}

PENDING = {}
NA = {
 "C14": "spectral placement: the postcondition depends on magnitudes produced by a data-dependent power iteration (up to 10^4 iterations, random start, float cancellation); no inductive invariant within SMT reach re-establishes normalize()'s precondition, so no contract decides the API-level statement (DESIGN.md section 8)",
}
ALL = [f"C{i:02d}" for i in range(1, 21)]


def main():
    checks = []
    for pid in ALL:
        if pid not in CHECKS:
            continue
        c = CHECKS[pid]
        checks.append(dict(property_id=pid, quick_cmd=f"./check {pid} --tier quick", thorough_cmd=f"./check {pid} --tier thorough",
                           evidence_file=f"/verif/evidence/{pid}.json", replay_cmd_template=f"./check {pid} --replay {{path}}",
                           engine="symx", level_claimed=dict(category=c["level"], text=c["text"], design_ref=c["ref"]),
                           level_note=c["note"], technique=c["technique"]))
    na = [dict(property_id=p, reason=r) for p, r in NA.items()]
    for pid in ALL:
        if pid not in CHECKS and pid not in NA:
            na.append(dict(property_id=pid, reason=PENDING.get(pid, "not claimed yet: the check for this property has not been built (work in progress, see DESIGN.md section 7)")))
    man = dict(version=1, setup_cmd="./setup.sh",
               hooks=dict(guard="FRAME_VERIF", enable="unused: contracts, stubs and shims are applied by monkey-patching inside the checker process; /repo has no verification hooks",
                          baseline_off_cmd="cd /repo && /venv/bin/python -m pytest -ra -q -p no:cacheprovider --timeout=900 --continue-on-collection-errors",
                          source_commits=[], add_only=True),
               engines=[dict(name="symx", path="/verif/vf/symx.py", serves_properties=sorted(CHECKS),
                             kind_free_text="VC generator: exhaustive symbolic execution of the real Python functions with proxy numbers, modular contract stubs, recursion by contract; z3 / cvc5 back ends; concrete replay of models"),
                        dict(name="enumx", path="/verif/vf/core.py", serves_properties=[p for p in CHECKS if CHECKS[p].get("enum")],
                             kind_free_text="bounded stand-ins: run-time contract evaluation over enumerated / boundary-focused finite domains, labelled bounded")],
               checks=checks, not_applicable=sorted(na, key=lambda x: x["property_id"]),
               notes="fix: commits in /repo repair genuine defects found by the checks (known_findings.json lists them as fixed). Exit codes: 0 held, 1 violation (VIOLATION line), 2 undecided, 3 checker error.")
    json.dump(man, open(os.path.join(V, "MANIFEST.json"), "w"), indent=1)
    import jsonschema
    jsonschema.validate(man, json.load(open("/root/.vp/MANIFEST.schema.json")))
    print("MANIFEST ok:", len(checks), "checks,", len(na), "not applicable")


if __name__ == "__main__":
    main()
