"""C02 -- refining an allocation conserves tiling, module area and centroid (frame/allocation/allocation.py)."""
from vf.core import contract
from .alloc_common import *  # noqa

P = "C02"


# ---- Allocation._split_allocation: recursion by contract, symbolic number of levels -------------------------------

@contract(P, functions=[A + "_split_allocation"], params=[dict(k=k, fixed=f) for k in (0, 1, 2) for f in (False, True)], leak_ok=True)
def split_allocation_recursive(S, k, fixed):
    """One execution of the real body; recursive calls are replaced by the function's own contract (measure: levels)."""
    set_eps(S)
    rect, alloc, depth = mk_cell(S, "c", k, fixed, S.choice("reg", ["_", "A"]))
    levels = S.int("levels", lo=0)
    calls = []

    def rec(r, al, d, lv=0):
        S.ensure("split.measure_decreases", sand(lv >= 0, lv < levels))
        calls.append((r, al, d, lv))
        return split_stub(S)(r, al, d, lv)
    if S.mode == "sym":
        S.patch(Allocation, "_split_allocation", staticmethod(rec))
    out = S.call(REAL_SPLIT, rect, alloc, depth, levels)
    if S.mode == "sym" and out.ok and not calls and not isinstance(out.value, Summary) and len(out.value) > 1:
        # the body split the cell without calling itself through Allocation._split_allocation (iteration, or recursion inside a nested
        # helper): recursion-by-contract does not apply to this shape of the code; the unrolled and bounded tasks cover it
        from vf import loopcut
        raise loopcut.CutError("_split_allocation no longer recurses through its own name: recursion-by-contract not applicable")
    S.ensure("split.no_raise", out.ok)
    if not out.ok:
        return
    res = out.value
    s = res if isinstance(res, Summary) else Summary.of_list(res, parent_alloc=alloc)
    split_contract_post(S, "split", rect, alloc, depth, levels, s)
    S.ensure("split.argument_map_untouched", len(alloc) == k)


@contract(P, functions=[A + "_split_allocation"], scope="bounded: levels <= 3 (cross-check of the recursion contract, body inlined)",
          params=[dict(levels=n) for n in (0, 1, 2, 3)])
def split_allocation_unrolled(S, levels):
    set_eps(S)
    rect, alloc, depth = mk_cell(S, "c", 2)
    out = S.call(Allocation._split_allocation, rect, alloc, depth, levels)
    S.ensure("split_unrolled.no_raise", out.ok)
    if out.ok:
        split_contract_post(S, "split_unrolled", rect, alloc, depth, levels, Summary.of_list(out.value, parent_alloc=alloc))


@contract(P, canary=True)
def canary_split_keeps_depth(S):
    rect, alloc, depth = mk_cell(S, "c", 1)
    out = S.call(Allocation._split_allocation, rect, alloc, depth, 1)
    s = Summary.of_list(out.value)
    S.ensure("canary.depth_unchanged", sand(s.depth_ok, seq(s.depth, depth)))


# ---- lemma: overlap is monotone under taking sub-rectangles (cells cut from disjoint parents stay disjoint) --------

@contract(P, functions=[])
def lemma_overlap_monotone(S):
    b = [tuple(S.real(f"{n}{i}") for i in range(4)) for n in "abcd"]
    for x in b:
        S.assume(sand(x[0] < x[2], x[1] < x[3]))
    a_, b_, c_, d_ = b
    S.assume(sand(box_inside(c_, a_), box_inside(d_, b_)))
    S.ensure("lemma.sub_rectangles_overlap_no_more_than_parents", box_ovl(c_, d_) <= box_ovl(a_, b_))
    S.ensure("lemma.disjoint_parents_give_disjoint_pieces", simplies(interiors_disjoint(a_, b_), interiors_disjoint(c_, d_)))


# ---- refine / uniform_refinement_depth: per-cell contract (FLATMAP) ---------------------------------------------------

def _flatmap_or_skip(S, fn, idx=0):
    try:
        return loopshape.flatmap_shape(fn, idx, accumulators=["new_alloc"])
    except loopshape.ShapeError as e:
        S.cover("loop-cut-not-applicable:" + str(e))
        return None


def _per_cell_post(S, pre, cell, split_expected, levels, captured, must_stay_if_fixed=True):
    rect, alloc, depth = cell
    s = Summary.of_list(captured, parent_alloc=alloc)
    area = rect.shape.w * rect.shape.h
    R = box(rect)
    # conservation (what C02 states), for the cell's contribution to the result
    S.ensure(pre + ".region_conserved", sand(seq(s.area, area), box_inside(s.hull, R), s.disjoint))
    S.ensure(pre + ".module_area_conserved", sand(s.ratios_ok, *[seq(s.ratios[m] * s.area, alloc[m] * area) for m in alloc])
             if list(s.ratios.keys()) == list(alloc.keys()) else False)
    S.ensure(pre + ".module_centre_of_mass_conserved",
             sand(s.ratios_ok, *[sand(seq(s.ratios[m] * s.mx, alloc[m] * area * rect.center.x),
                                      seq(s.ratios[m] * s.my, alloc[m] * area * rect.center.y)) for m in alloc])
             if list(s.ratios.keys()) == list(alloc.keys()) else False)
    S.ensure(pre + ".ratios_inherited", sand(s.ratios_ok, list(s.ratios.keys()) == list(alloc.keys())))
    S.ensure(pre + ".attributes_inherited", sand(s.attrs_ok, s.attrs == (rect.region, rect.fixed, rect.hard)))
    S.ensure(pre + ".fixed_cell_never_cut", simplies(rect.fixed, seq(s.n, 1)))
    # well-formedness needed by the constructor that follows (so that the operation succeeds)
    S.ensure(pre + ".result_cells_wellformed", sand(s.depth_ok, s.depth >= 0, s.hull[0] >= R[0], s.hull[1] >= R[1]))
    return s


@contract(P, functions=[A + "refine"], params=[dict(k=k, fixed=f, lv=lv) for k in (0, 1, 2, 3) for f in (False, True)
                                                 for lv in ("sym", 1, 2)])
def refine_per_cell(S, k, fixed, lv):
    """refine() on an allocation holding one arbitrary cell = the contribution of an arbitrary iteration of its loop
    (iterations are independent: FLATMAP shape checked on the AST).  _split_allocation is its contract (lv='sym':
    any number of levels) or inlined (lv=1,2)."""
    shape = _flatmap_or_skip(S, Allocation.refine)
    set_eps(S)
    cell = mk_cell(S, "c", k, fixed)
    t = S.real("t")
    levels = S.int("levels", lo=1) if lv == "sym" else lv
    a = bare_allocation([cell])
    S.patch(amod, "Allocation", Capture)
    if lv == "sym" and S.mode == "sym":
        S.patch(Allocation, "_split_allocation", staticmethod(split_stub(S)))
    out = S.call(a.refine, t, levels)
    S.ensure("refine.no_raise", out.ok)
    if not out.ok:
        return
    S.ensure("refine.returns_new_allocation", isinstance(out.value, Capture) and out.value is not a)
    _per_cell_post(S, "refine", cell, None, levels, out.value.captured)
    S.ensure("refine.argument_allocation_untouched", len(a._allocations) == 1 and a._allocations[0].rect is cell[0]
             and a._allocations[0].alloc is cell[1] and len(cell[1]) == k)


@contract(P, functions=[A + "refine", A + "must_be_refined"], params=[dict(k=k, lv=lv) for k in (1, 2) for lv in ("sym", 1)])
def refine_decides_on_the_cell_as_it_is_when_called(S, k, lv):
    """added after seed C02-11 (split decisions memoised per threshold): the cells of fixed modules are marked IN PLACE
    (Allocation.initial_allocation / _detect_fixed_rectangles set rect.fixed on the cell objects of an existing allocation), possibly
    after the allocation was already queried or refined with the same threshold.  What refine() does depends on the cell as it is
    when refine() is called: a cell that is fixed then is never cut, whatever was asked before."""
    _flatmap_or_skip(S, Allocation.refine)
    set_eps(S)
    cell = mk_cell(S, "c", k, False)
    t = S.real("t")
    levels = S.int("levels", lo=1) if lv == "sym" else lv
    a = bare_allocation([cell])
    S.patch(amod, "Allocation", Capture)
    if lv == "sym" and S.mode == "sym":
        S.patch(Allocation, "_split_allocation", staticmethod(split_stub(S)))
    before = S.choice("asked_before", ["nothing", "must_be_refined", "refine", "both"])
    if before in ("must_be_refined", "both"):
        q = S.call(a.must_be_refined, t)
        S.ensure("refine_state.query_no_raise", q.ok)
    if before in ("refine", "both"):
        q = S.call(a.refine, t, 1)
        S.ensure("refine_state.earlier_refine_no_raise", q.ok)
    cell[0].fixed = True            # the cell now belongs to a fixed module
    out = S.call(a.refine, t, levels)
    S.ensure("refine_state.no_raise", out.ok)
    if not out.ok:
        return
    _per_cell_post(S, "refine_state", cell, None, levels, out.value.captured)
    m = S.call(a.must_be_refined, t)
    S.ensure("refine_state.fixed_cell_demands_no_refinement", m.ok and m.value is False)


@contract(P, functions=[A + "refine"])
def refine_rejects_nonpositive_levels(S):
    cell = mk_cell(S, "c", 1)
    lv = S.int("levels")
    S.assume(lv <= 0)
    a = bare_allocation([cell])
    S.patch(amod, "Allocation", Capture)
    S.patch(Allocation, "_split_allocation", staticmethod(split_stub(S)))
    out = S.call(a.refine, S.real("t"), lv)
    S.ensure("refine.rejects_levels<=0", out.raised(AssertionError))


@contract(P, functions=[A + "uniform_refinement_depth"], params=[dict(k=k, fixed=f) for k in (0, 1, 2) for f in (False, True)],
          crosscheck=False)   # the per-cell bookkeeping (marks) exists only with the contract stub: no faithful concrete counterpart
def uniform_per_cell(S, k, fixed):
    """uniform_refinement_depth() on {arbitrary cell, any other cell}: the other cell makes the target depth range over
    every value >= the cell's depth; obligations are stated for the first cell's contribution."""
    _flatmap_or_skip(S, Allocation.uniform_refinement_depth)
    set_eps(S)
    cell = mk_cell(S, "c", k, fixed)
    other = mk_cell(S, "o", 1)
    a = bare_allocation([cell, other])
    S.patch(amod, "Allocation", Capture)
    marks = []

    def stub(rect, alloc, depth, levels=0):
        r = split_stub(S)(rect, alloc, depth, levels)
        marks.append((rect, r))
        return r
    if S.mode == "sym":
        S.patch(Allocation, "_split_allocation", staticmethod(stub))
    out = S.call(a.uniform_refinement_depth)
    S.ensure("uniform.no_raise", out.ok)
    if not out.ok:
        return
    mx = smax(cell[2], other[2])
    if out.value is a:
        S.ensure("uniform.identity_only_when_depths_equal", seq(cell[2], other[2]))
        return
    if S.mode != "sym":      # concrete replay: the real recursion ran; the cell's pieces are those inside its box
        B = box(cell[0])
        marks = [(cell[0], [d for d in out.value.captured if box_inside(box(d[0]), B) and (d[1].keys() == cell[1].keys())])]
        marks.append((other[0], []))
    mine = [r for rect, r in marks if rect is cell[0]]
    S.ensure("uniform.one_contribution_per_cell", len(mine) == 1 and len(marks) == 2)
    if len(mine) != 1:
        return
    s = _per_cell_post(S, "uniform", cell, None, None, mine[0] if isinstance(mine[0], list) else [mine[0]])
    S.ensure("uniform.cell_reaches_the_former_maximum_depth", simplies(snot(cell[0].fixed), seq(s.depth, mx)))


# ---- griddify: conservation on lattice templates (bounded structure, all coordinates symbolic) ------------------------

from .griddify_common import TEMPLATES, QUICK, lattice, lattice_cells  # noqa: E402


def _griddify_conservation(S, tmpl, fixed_idx, k):
    E, EA = set_eps(S)
    nx, ny, idx = TEMPLATES[tmpl]
    X, Y = lattice(S, nx, ny, E)
    cells = lattice_cells(S, tmpl, X, Y, k, fixed_idx)
    a = bare_allocation(cells)
    S.patch(amod, "Allocation", Capture)
    out = S.call(a.griddify)
    S.ensure("griddify.no_raise", out.ok)
    if not out.ok:
        return
    cap = out.value.captured
    # every piece lies inside exactly the cell it was cut from and inherits its ratios / attributes
    mods = sorted({m for _, al, _ in cells for m in al})
    tot_area = {m: 0 for m in mods}
    tot_mx = {m: 0 for m in mods}
    tot_my = {m: 0 for m in mods}
    per_parent_area = [0 for _ in cells]
    inh = []
    for (r, al, d) in cap:
        B = box(r)
        ar = r.shape.w * r.shape.h
        parents = []
        for n, (pr, pal, pd) in enumerate(cells):
            is_in = box_inside(B, box(pr))
            same = list(al.keys()) == list(pal.keys()) and sand(*[seq(al[m], pal[m]) for m in pal]) and attrs_eq(r, pr)
            parents.append(sand(is_in, same, d >= pd))
            per_parent_area[n] = per_parent_area[n] + sif(is_in, ar, 0)
        inh.append(sor(*parents))
        for m in al:
            tot_area[m] = tot_area[m] + al[m] * ar
            tot_mx[m] = tot_mx[m] + al[m] * ar * r.center.x
            tot_my[m] = tot_my[m] + al[m] * ar * r.center.y
    S.ensure("griddify.each_piece_inside_a_parent_with_its_ratios_and_attributes", sand(*inh))
    S.ensure("griddify.pieces_pairwise_disjoint",
             sand(*[interiors_disjoint(box(cap[i][0]), box(cap[j][0])) for i in range(len(cap)) for j in range(i + 1, len(cap))])
             if len(cap) > 1 else True)
    S.ensure("griddify.each_parent_fully_covered",
             sand(*[seq(per_parent_area[n], cells[n][0].shape.w * cells[n][0].shape.h) for n in range(len(cells))]))
    exp_area = {m: sum(al[m] * r.shape.w * r.shape.h for r, al, _ in cells if m in al) for m in mods}
    exp_mx = {m: sum(al[m] * r.shape.w * r.shape.h * r.center.x for r, al, _ in cells if m in al) for m in mods}
    exp_my = {m: sum(al[m] * r.shape.w * r.shape.h * r.center.y for r, al, _ in cells if m in al) for m in mods}
    S.ensure("griddify.module_area_conserved", sand(*[seq(tot_area[m], exp_area[m]) for m in mods]))
    S.ensure("griddify.module_centre_of_mass_conserved",
             sand(*[sand(seq(tot_mx[m], exp_mx[m]), seq(tot_my[m], exp_my[m])) for m in mods]))
    S.ensure("griddify.fixed_cells_untouched",
             all(any(r is pr and al == pal for (r, al, d) in cap) for (pr, pal, pd) in cells if pr.fixed))
    S.ensure("griddify.ratio_maps_fresh_for_cut_cells", len({id(al) for _, al, _ in cap}) == len(cap))
    S.ensure("griddify.argument_untouched", len(a._allocations) == len(cells) and all(x.rect is c[0] for x, c in zip(a._allocations, cells)))


@contract(P, functions=[A + "griddify", "frame.geometry.geometry.gather_boundaries"], budget_s=600,
          scope="bounded: lattice templates of <= 3 cells (all coordinates, ratios, depths symbolic)",
          params=[dict(tmpl=t, fixed_idx=f) for t in QUICK for f in (-1, 0, 1) if f < len(TEMPLATES[t][2])])
def griddify_conserves(S, tmpl, fixed_idx):
    _griddify_conservation(S, tmpl, fixed_idx, 2)


@contract(P, tier="thorough", functions=[A + "griddify"], budget_s=3000,
          scope="bounded: lattice templates of <= 3 cells (all coordinates, ratios, depths symbolic)",
          params=[dict(tmpl=t, fixed_idx=f) for t in TEMPLATES if t not in QUICK for f in (-1, 0, 1, 2) if f < len(TEMPLATES[t][2])])
def griddify_conserves_more(S, tmpl, fixed_idx):
    _griddify_conservation(S, tmpl, fixed_idx, 2)


# ---- the Allocation constructor (which every operation ends with) and the operations through it ------------------------------

def _valid_cells(S, ks, EA):
    cells = []
    for i, k in enumerate(ks):
        c = mk_cell(S, f"c{i}", k, False)
        b = box(c[0])
        S.assume(sand(b[0] >= 0, b[1] >= 0))
        cells.append(c)
    for i in range(len(cells)):
        for j in range(i + 1, len(cells)):
            S.assume(ovl(cells[i][0], cells[j][0]) <= EA)
    return cells


@contract(P, functions=[A + "__init__", A + "_parse_yaml_tree", A + "_check_no_overlap", A + "_calculate_areas_and_centers", A + "_calculate_bounding_box",
                        A + "area", A + "center"], params=[dict(ks=list(k)) for k in ((1,), (2,), (1, 1), (2, 1), (0, 1))], budget_s=600,
          scope="bounded: <= 2 cells (all values symbolic); pairwise / per-cell checks are assert-only loops")
def allocation_constructor_contract(S, ks):
    """Allocation(cells) is accepted iff the cells are well formed (ratios in [0,1], no pairwise overlap beyond the area
    tolerance, inside the positive quadrant); then it reports the cells
    unchanged and area(m) / center(m) are the sums / area-weighted centroid by definition."""
    E, EA = set_eps(S)
    cells = []
    for i, k in enumerate(ks):
        r = mk_rect(S, f"c{i}")
        al = {MODS[m]: S.real(f"c{i}a{m}") for m in range(k)}
        cells.append((r, al, S.int(f"c{i}d")))
    out = S.call(Allocation, list(cells))
    mods = sorted({m for _, al, _ in cells for m in al})
    tot = {m: sum(al.get(m, 0) * r.shape.w * r.shape.h for r, al, _ in cells if m in al) for m in mods}
    wf = sand(*[sand(v >= 0, v <= 1) for _, al, _ in cells for v in al.values()], *[d >= 0 for _, _, d in cells],
              *[ovl(cells[i][0], cells[j][0]) <= EA for i in range(len(cells)) for j in range(i + 1, len(cells))],
              smin(*[box(r)[0] for r, _, _ in cells]) >= 0, smin(*[box(r)[1] for r, _, _ in cells]) >= 0)
    S.ensure("constructor.accepted_iff_wellformed", siff(out.ok, wf))
    S.ensure("constructor.rejection_is_a_clean_error", out.ok or out.raised(AssertionError))
    if not out.ok:
        return
    a = out.value
    S.ensure("constructor.cells_reported_unchanged", a.num_rectangles == len(cells) and all(x.rect is c[0] for x, c in zip(a.allocations, cells))
             and sand(*[sand(seq(x.depth, c[2]), list(x.alloc.keys()) == list(c[1].keys()), *[seq(x.alloc[m], c[1][m]) for m in c[1]]) for x, c in zip(a.allocations, cells)]))
    for m in mods:
        S.ensure("constructor.module_area_is_sum_of_ratio_times_cell_area", seq(a.area(m), tot[m]))
        mx = sum(al[m] * r.shape.w * r.shape.h * r.center.x for r, al, _ in cells if m in al)
        my = sum(al[m] * r.shape.w * r.shape.h * r.center.y for r, al, _ in cells if m in al)
        c = S.call(a.center, m)
        # a module listed with zero ratios only has area 0 and no centre (fix 755f860); otherwise the centre is the centroid
        S.ensure("constructor.centre_defined_iff_the_module_has_allocated_area", siff(c.ok, tot[m] > 0) and (c.ok or c.raised(KeyError)))
        if c.ok:
            S.ensure("constructor.module_centre_is_the_area_weighted_centroid", sand(seq(c.value.x * tot[m], mx), seq(c.value.y * tot[m], my)))


@contract(P, functions=[A + "refine", A + "uniform_refinement_depth", A + "griddify", A + "__init__"], budget_s=600, exact_feas_ms=0,
          params=[dict(op=o, tmpl=t) for o, t in (("refine", "two_side_by_side_T"), ("refine", "two_stacked_T"), ("griddify", "two_side_by_side_T"),
                                                  ("griddify", "two_stacked_T"))],
          scope="bounded: valid allocations of 2 cells on a lattice (all coordinates / ratios / depths symbolic) through the REAL constructors, no stubs but area_overlap")
def operations_succeed_on_valid_allocations(S, op, tmpl):
    _operations_succeed(S, op, tmpl)


def _operations_succeed(S, op, tmpl):
    """'the operation succeeds on every valid allocation' and 'every module keeps its area and centre of mass' observed
    through the public API (area(m), center(m)) with the real constructor re-checking the result"""
    E, EA = set_eps(S)
    if S.mode == "sym":
        S.patch(Rectangle, "area_overlap", lambda self, r: ovl(self, r))      # C18 contract (spec term)
    nx, ny, idx = TEMPLATES[tmpl]
    X, Y = lattice(S, nx, ny, E)
    cells = lattice_cells(S, tmpl, X, Y, 1, -1)
    for c in cells:
        S.assume(sand(*[v > 0 for v in c[1].values()]))
    a0 = S.call(Allocation, list(cells))
    S.ensure("valid.lattice_allocation_is_accepted", a0.ok)
    if not a0.ok:
        return
    a = a0.value
    area0, cx0, cy0 = a.area("M0"), a.center("M0").x, a.center("M0").y
    t = S.real("t")

    def run():
        if op == "refine":
            return a.refine(t, 1)
        if op == "griddify":
            return a.griddify()
        if op == "refine_uniform":
            return a.refine(t, 1).uniform_refinement_depth()
        if op == "refine_griddify":
            return a.refine(t, 1).griddify()
        return a.refine(t, 1).uniform_refinement_depth().griddify()
    out = S.call(run)
    S.ensure("valid.operation_succeeds", out.ok)
    if out.ok:
        b = out.value
        S.ensure("valid.module_area_and_centre_of_mass_kept", sand(seq(b.area("M0"), area0), seq(b.center("M0").x, cx0), seq(b.center("M0").y, cy0)))


# ---- bounded float leg: the operations in doubles on decimal (non-representable) coordinates -----------------------------------

@contract(P, kind="enum", functions=[A + "refine", A + "uniform_refinement_depth", A + "griddify", A + "__init__", "frame.geometry.geometry.Rectangle.set_epsilon"],
          scope="bounded: random allocations on decimal lattices (0.1 / 0.35 / 1.7 steps), compositions of up to 3 operations, in doubles, fresh tolerances",
          params=[dict(chunk=i) for i in range(8)])
def float_leg(chunk, replay=None):
    import os
    import random
    tier = os.environ.get("VERIF_TIER", "quick")
    rng = random.Random(4242 + chunk + 97 * int(os.environ.get("VERIF_SEED", "0") or 0))
    n_cases = 60 if tier != "thorough" else 1500
    failures, evals, nontriv, samples = [], 0, 0, []
    for it in range(n_cases):
        if replay:
            spec, ops = replay["spec"], replay["ops"]
        else:
            step = rng.choice([0.1, 0.35, 0.7, 1.7, 3.3, 1.0, 0.05])
            nx, ny = rng.randint(1, 3), rng.randint(1, 3)
            xs = [round(i * step * rng.choice([1, 2]), 10) for i in range(nx + 1)]
            xs = sorted(set(xs)) if len(set(xs)) == nx + 1 else [i * step for i in range(nx + 1)]
            ys = [j * step * 1.5 for j in range(ny + 1)]
            spec = []
            for i in range(nx):
                for j in range(ny):
                    if rng.random() < 0.8:
                        al = {}
                        for m in ("M0", "M1", "M2"):
                            if rng.random() < 0.5:
                                al[m] = rng.choice([0.0, 0.1, 0.3, 0.5, 1 / 3, 0.9])
                        spec.append([[(xs[i] + xs[i + 1]) / 2, (ys[j] + ys[j + 1]) / 2, xs[i + 1] - xs[i], ys[j + 1] - ys[j]], al, rng.choice([0, 0, 1, 2])])
            if rng.random() < 0.5:
                rng.shuffle(spec)           # the order of the cells in the document must not matter
            ops = [rng.choice(["refine:0.2:1", "refine:0.5:1", "refine:1.0:1", "refine:0.95:2", "refine:0.4:3", "uniform", "griddify"]) for _ in range(rng.randint(1, 3))]
        if not spec:
            continue
        Rectangle.undefine_epsilon()
        try:
            a = Allocation([[list(r), dict(al), d] if d else [list(r), dict(al)] for r, al, d in spec])
        except AssertionError:
            continue        # not a valid allocation: outside the property
        fixed_idx = rng.randrange(len(spec)) if (rng.random() < 0.3 and not replay) else (replay or {}).get("fixed_idx")
        if fixed_idx is not None:
            a.allocations[fixed_idx].rect.fixed = True
        evals += 1
        mods = sorted({m for _, al, _ in spec for m in al})
        area0 = {m: a.area(m) for m in mods}
        c0 = {m: (a.center(m).x, a.center(m).y) for m in mods if area0[m] > 0}        # a module with zero ratios only has no centre
        tot0 = sum(x.rect.area for x in a.allocations)
        fixed_rects = [x.rect for x in a.allocations if x.rect.fixed]
        cur = a
        try:
            for op in ops:
                if op.startswith("refine"):
                    _, t, lv = op.split(":")
                    cur = cur.refine(float(t), int(lv))
                elif op == "uniform":
                    cur = cur.uniform_refinement_depth()
                else:
                    cur = cur.griddify()
        except Exception as e:  # noqa
            failures.append(dict(clause="float.operation_succeeds_on_a_valid_allocation", spec=spec, ops=ops, fixed_idx=fixed_idx, observed=f"{type(e).__name__}: {str(e)[:150]}"))
            continue
        nontriv += 1 if cur.num_rectangles > a.num_rectangles else 0
        scale = max(tot0, 1e-300)
        bad = None
        if abs(sum(x.rect.area for x in cur.allocations) - tot0) > 1e-9 * scale:
            bad = "float.total_area_conserved"
        for m in mods:
            if abs(cur.area(m) - area0[m]) > 1e-9 * scale:
                bad = "float.module_area_conserved"
            elif m in c0 and (abs(cur.center(m).x - c0[m][0]) > 1e-7 * (abs(c0[m][0]) + 1) or abs(cur.center(m).y - c0[m][1]) > 1e-7 * (abs(c0[m][1]) + 1)):
                bad = "float.module_centre_of_mass_conserved"
        for fr in fixed_rects:
            if not any(x.rect.fixed and x.rect.center == fr.center and x.rect.shape == fr.shape for x in cur.allocations):
                bad = "float.fixed_cells_never_cut"
        if bad:
            failures.append(dict(clause=bad, spec=spec, ops=ops, fixed_idx=fixed_idx))
        if len(samples) < 2:
            samples.append(dict(cells=len(spec), ops=ops, result_cells=cur.num_rectangles))
        if len(failures) >= 5 or replay:
            break
    Rectangle.undefine_epsilon()
    return dict(evaluations=evals, distinct_nontrivial=nontriv, exhaustive=False, failures=failures[:5],
                rule="random cell layouts on lattices with decimal steps (0.05 .. 3.3), ratios from {0, 0.1, 0.3, 1/3, 0.5, 0.9}, depths, an optional "
                     "fixed cell; tolerances undefined at the start (as in a fresh process); 1-3 of refine(t, levels) / uniform / griddify; "
                     "no exception, total area / module area (1e-9) / centre (1e-7) conserved, fixed cells uncut; non-trivial = runs that cut at least one cell",
                samples=samples or [1], bound=f"{n_cases} cases per chunk")
