"""C09 -- the legaliser's constraint system admits exactly the legal floorplans (tools/legalfloor).
The model is built by the REAL netlist_to_utils + Model.first_build_model (GEKKO runs locally, nothing is solved);
every Equation of the built model is read back as an expression tree and translated node by node (8 node kinds) into
z3 over SYMBOLIC rectangle variables; with the annealing slack at 0 and the 1e-6 of Equation.is_equation_met:
      for all configurations:   legal_strict(cfg) => met(cfg)      and      met(cfg) => legal_tol(cfg)
where legal_* is written from the property statement."""
import contextlib
import io
import os
import random

import z3

from vf import core, symx
from vf.core import contract
from vf.symx import SymReal, sand, sor, snot, seq, siff, simplies, sif, smax as vmax, smin as vmin

P = "C09"
L = "tools.legalfloor."
TOL = 1e-6


def _imports():
    with contextlib.redirect_stdout(io.StringIO()):
        import tools.legalfloor.legalfloor as lf
        import tools.legalfloor.expression_tree as et
    return lf, et


# ---- instances ---------------------------------------------------------------------------------------------------------

INSTANCES = {
    "soft_L_and_fixed": dict(die=(12.0, 10.0), ratio=3.0, netlist="""
Modules: {
  A: {area: 13, rectangles: [[3, 3, 4, 2], [2, 5, 2, 2], [5.5, 3, 1, 1]]},
  F: {fixed: true, rectangles: [[10, 8, 2, 2]]}
}
Nets: [[A, F]]
"""),
    "two_soft_singles": dict(die=(8.0, 6.0), ratio=2.0, netlist="""
Modules: {
  A: {area: 6, rectangles: [[1.5, 1, 3, 2]]},
  B: {area: 4, rectangles: [[6, 4, 2, 2]]}
}
Nets: [[A, B, 2]]
"""),
    "soft_two_north_two_west": dict(die=(14.0, 12.0), ratio=4.0, netlist="""
Modules: {
  A: {area: 30, rectangles: [[7, 5, 6, 4], [5.0, 7.5, 2, 1], [8.5, 8.0, 1, 2], [3.5, 3.75, 1, 1.5], [3.0, 6.0, 2, 1]]},
  B: {area: 2, rectangles: [[12.5, 1, 1, 2]]}
}
Nets: [[A, B]]
"""),
    "soft_east_short_then_long": dict(die=(10.0, 10.0), ratio=4.0, netlist="""
Modules: {
  A: {area: 46, rectangles: [[3, 5, 4, 8], [5.5, 1.5, 1, 1], [6, 5.75, 2, 6.5]]},
  B: {area: 2, rectangles: [[8.5, 1, 1, 2]]}
}
Nets: [[A, B]]
"""),
    "soft_north_long_then_short": dict(die=(12.0, 10.0), ratio=5.0, netlist="""
Modules: {
  A: {area: 40.5, rectangles: [[5, 2.5, 8, 4], [3.5, 5, 5, 1], [8, 6.25, 1, 3.5]]},
  B: {area: 1, rectangles: [[11.0, 9.0, 1, 1]]}
}
Nets: [[A, B]]
"""),
    "hard_with_branch_float": dict(die=(20.0, 16.0), ratio=3.0, netlist="""
Modules: {
  H: {hard: true, rectangles: [[8.0, 8.0, 4.0, 4.0], [8.0, 11.0, 2.0, 2.0]]},
  S: {area: 4, rectangles: [[2, 2, 2, 2]]}
}
Nets: [[H, S]]
"""),
    "hard_with_branch_int": dict(die=(20.0, 16.0), ratio=3.0, netlist="""
Modules: {
  H: {hard: true, rectangles: [[8, 8, 4, 4], [11, 8, 2, 2]]},
  S: {area: 4, rectangles: [[2, 2, 2, 2]]}
}
Nets: [[H, S]]
"""),
    "fixed_with_branch": dict(die=(20.0, 16.0), ratio=3.0, netlist="""
Modules: {
  F: {fixed: true, rectangles: [[8.0, 8.0, 4.0, 4.0], [5.0, 7.0, 2.0, 2.0]]},
  S: {area: 9, rectangles: [[16.5, 2.5, 3, 3]]}
}
Nets: [[F, S]]
"""),
    "hard_single_and_fixed_single": dict(die=(10.0, 10.0), ratio=2.5, netlist="""
Modules: {
  H: {hard: true, rectangles: [[2.5, 2.5, 3.0, 2.0]]},
  F: {fixed: true, rectangles: [[7.5, 7.5, 2.0, 3.0]]},
  S: {area: 5, rectangles: [[7.0, 2.0, 2.5, 2.0]]}
}
Nets: [[H, F, S]]
"""),
}
QUICK = list(INSTANCES)      # instances are defined above the table: keep after it


def build(inst):
    """real Netlist -> real netlist_to_utils -> real Model (first_build_model); returns everything needed"""
    lf, et = _imports()
    from frame.netlist.netlist import Netlist
    from frame.geometry.geometry import Rectangle
    spec = INSTANCES[inst]
    Rectangle.undefine_epsilon()
    with contextlib.redirect_stdout(io.StringIO()):
        n = Netlist(spec["netlist"])
        ml, al, xl, yl, wl, hl, hyper, names = lf.netlist_to_utils(n)
        m = lf.Model(ml, al, xl, yl, wl, hl, spec["die"][0], spec["die"][1], hyper, spec["ratio"], names, 0.9, 0.3, 1.0, 1)
    return lf, et, n, m, spec


def equations(m):
    """(group, Equation) of the built model, except the per-iteration step caps and the time pin"""
    out = []
    for group, eqs in m.gekko.constraints.items():
        if group in ("radius", "Exact Value", "Lower Bound"):
            continue
        for e in eqs:
            out.append((group, e))
    for mod in m.M:
        for group, e in mod.get_constraints(m.gekko):
            out.append((group, e))
    return out


class Translator:
    """ExpressionTree -> z3 (8 node kinds); variables by their registered name; sqrt by its defining axiom"""

    def __init__(self, et, varmap, side):
        self.et, self.varmap, self.side = et, varmap, side
        self.n = 0

    def tr(self, t):
        NT = self.et.NodeType
        if t.type is NT.CST:
            return symx.real_val(float(t.value))
        if t.type is NT.VAR:
            name = t.data["name"] if t.data else t.value.name
            if name not in self.varmap:
                return symx.real_val(float(self.et.value_of(t.value)))     # a pinned auxiliary (time)
            return self.varmap[name]
        if t.type is NT.SRT:
            a = self.tr(t.value[0])
            self.n += 1
            s = z3.Real(f"sqrt_{len(self.side)}_{self.n}")
            self.side.append(z3.And(s >= 0, s * s == a))
            return s
        a, b = self.tr(t.value[0]), self.tr(t.value[1])
        if t.type is NT.ADD:
            return a + b
        if t.type is NT.SUB:
            return a - b
        if t.type is NT.MUL:
            return a * b
        if t.type is NT.DIV:
            return a / b
        if t.type is NT.EXP:
            bs = z3.simplify(b)
            if z3.is_rational_value(bs) and bs.as_fraction() == 2:
                return a * a
            raise symx.ProxyLeak(f"unsupported exponent {bs}")
        raise symx.ProxyLeak(f"unknown node type {t.type}")


def met(et, eq, tr):
    """Equation.is_equation_met with the annealing slack at 0"""
    l, r = tr.tr(eq.lhs), tr.tr(eq.rhs)
    tol = symx.real_val(TOL)
    if eq.cmp is et.Cmp.LE:
        return l <= r + tol
    if eq.cmp is et.Cmp.GE:
        return l >= r - tol
    return z3.And(l >= r - tol, l <= r + tol)


def rect_vars(S, m):
    """symbolic (x, y, w, h) per rectangle of the model, keyed like the model's variables"""
    varmap, rects = {}, {}
    for i, mod in enumerate(m.M):
        for j in range(mod.c):
            v = {}
            for k, lst in (("x", mod.x), ("y", mod.y), ("w", mod.w), ("h", mod.h)):
                name = f"{k}{i}i{j}"
                sv = S.real(name, pos=(k in "wh"))
                if S.mode == "sym":
                    varmap[name] = sv.t
                else:               # concrete replay: the configuration is assigned to the model's own variables
                    lst[j].assign(sv)
                v[k] = sv
            S.assume(sand(v["w"] > 0, v["h"] > 0))
            rects[(i, j)] = v
    return varmap, rects


def box(v):
    return (v["x"] - v["w"] / 2, v["y"] - v["h"] / 2, v["x"] + v["w"] / 2, v["y"] + v["h"] / 2)


def legality(n, m, spec, rects, strict, lf):
    """The clauses of a legal floorplan, from the property statement.  strict: exact; else: with the stated tolerances."""
    W, H = spec["die"]
    R = spec["ratio"]
    t = 0 if strict else 2 * TOL
    out = {}
    tau = 0.01 * min(W, H) / len(m.M)
    for i, mod in enumerate(n.modules):
        mm = m.M[i]
        roles = {0: "T"}
        for side, lst in (("N", mm.N), ("S", mm.S), ("E", mm.E), ("W", mm.W)):
            for j in lst:
                roles[j] = side
        orig = [None] * mm.c
        # original rectangles in the model's order (trunk, N.., S.., E.., W..) as netlist_to_utils builds it
        trunk, Nb, Sb, Eb, Wb = m.ml[i]
        orig_list = [trunk] + list(Nb) + list(Sb) + list(Eb) + list(Wb)
        for j in range(mm.c):
            v = rects[(i, j)]
            b = box(v)
            out[f"inside_die[{i},{j}]"] = ("Bounds", sand(b[0] >= -t, b[1] >= -t, b[2] <= W + t, b[3] <= H + t))
            # aspect ratio within the limit: max(w/h, h/w) <= R   (tolerance: the equation is scaled by 10)
            if strict:
                out[f"ratio[{i},{j}]"] = ("Shapes", sand(v["w"] <= R * v["h"], v["h"] <= R * v["w"]))
            else:
                # thin(w,h) >= thin(R,1) - tol/10, multiplied out (w^2 + h^2 > 0)
                out[f"ratio[{i},{j}]"] = ("Shapes", v["w"] * v["h"] * 10 >= ((R / (R * R + 1)) * 10 - t) * (v["w"] * v["w"] + v["h"] * v["h"]))
        if not mod.is_hard:
            out[f"area[{i}]"] = ("Area", sum(rects[(i, j)]["w"] * rects[(i, j)]["h"] for j in range(mm.c)) >= mod.area() - t)
        T = rects[(i, 0)]
        TB = box(T)
        for j in range(1, mm.c):
            v = rects[(i, j)]
            b = box(v)
            side = roles[j]
            if side == "N":
                c = sand(abs(b[1] - TB[3]) <= t, b[0] >= TB[0] - t, b[2] <= TB[2] + t)
            elif side == "S":
                c = sand(abs(b[3] - TB[1]) <= t, b[0] >= TB[0] - t, b[2] <= TB[2] + t)
            elif side == "E":
                c = sand(abs(b[0] - TB[2]) <= t, b[1] >= TB[1] - t, b[3] <= TB[3] + t)
            else:
                c = sand(abs(b[2] - TB[0]) <= t, b[1] >= TB[1] - t, b[3] <= TB[3] + t)
            out[f"attached_within_extent[{i},{j}]"] = ("Attach", c)
        # original order along each side, not overlapping
        for side, lst, key, lo, hi in (("N", mm.N, 0, 0, 2), ("S", mm.S, 0, 0, 2), ("E", mm.E, 1, 1, 3), ("W", mm.W, 1, 1, 3)):
            order = sorted(lst, key=lambda z: orig_list[z][key])
            for a_, b_ in zip(order, order[1:]):
                out[f"order_{side}[{i},{a_},{b_}]"] = ("Intra", box(rects[(i, a_)])[hi] <= box(rects[(i, b_)])[lo] + t)
        if mod.is_hard:
            for j in range(mm.c):
                v, o = rects[(i, j)], orig_list[j]
                cs = [abs(v["w"] - o[2]) <= t, abs(v["h"] - o[3]) <= t]
                if j > 0:
                    cs += [abs((v["x"] - T["x"]) - (o[0] - orig_list[0][0])) <= t, abs((v["y"] - T["y"]) - (o[1] - orig_list[0][1])) <= t]
                if mod.is_fixed:
                    cs += [abs(v["x"] - o[0]) <= t, abs(v["y"] - o[1]) <= t]
                out[f"{'fixed_in_place' if mod.is_fixed else 'congruent'}[{i},{j}]"] = ("Fix", sand(*cs))
    for i in range(len(m.M)):
        for k in range(i + 1, len(m.M)):
            for a_ in range(m.M[i].c):
                for b_ in range(m.M[k].c):
                    u, v = rects[(i, a_)], rects[(k, b_)]
                    dx2 = (u["x"] - v["x"]) * (u["x"] - v["x"]) - (u["w"] + v["w"]) * (u["w"] + v["w"]) / 4
                    dy2 = (u["y"] - v["y"]) * (u["y"] - v["y"]) - (u["h"] + v["h"]) * (u["h"] + v["h"]) / 4
                    if strict:
                        c = sor(dx2 >= 0, dy2 >= 0)
                    else:       # documented smoothing: both 'overlap depths' negative only if their product is below tau^2
                        c = sor(dx2 >= -TOL, dy2 >= -TOL, dx2 * dy2 <= tau * tau + TOL * (abs(dx2) + abs(dy2)))
                    out[f"no_overlap[{i},{a_}][{k},{b_}]"] = ("Inter", c)
    return out


def zvars(t):
    """names of the uninterpreted constants of a z3 term"""
    out, stack, seen = set(), [t], set()
    while stack:
        x = stack.pop()
        if x.get_id() in seen:
            continue
        seen.add(x.get_id())
        if z3.is_const(x) and x.decl().kind() == z3.Z3_OP_UNINTERPRETED:
            out.add(x.decl().name())
        stack.extend(x.children())
    return out


def eq_vars(e):
    return {v.data["name"] for v in e.get_variable_list() if v.data}


def _groups(et, m):
    eqs = equations(m)
    by = {}
    for g, e in eqs:
        by.setdefault(g, []).append(e)
    return eqs, by


@contract(P, functions=[L + "legalfloor.netlist_to_utils", L + "legalfloor.Model.first_build_model", L + "legalfloor.ModelModule._define_vars",
                        L + "legalfloor.ModelModule.add_rect_north", L + "legalfloor.ModelModule.add_rect_south",
                        L + "legalfloor.ModelModule.add_rect_east", L + "legalfloor.ModelModule.add_rect_west", L + "legalfloor.Model.fix",
                        L + "legalfloor.smax", L + "legalfloor.thin", L + "model.ModelWrapper.add_constraint", L + "model.ModelWrapper.fix_variable"],
          scope="per instance (netlist constants concrete), ALL configurations symbolic",
          params=[dict(inst=i, part=p) for i in QUICK for p in range(4)], budget_s=1500, vc_timeout_s=150)
def legal_implies_met(S, inst, part):
    """for all configurations: every clause of legality holds (strictly)  =>  every equation of the built model is met"""
    lf, et, n, m, spec = build(inst)
    varmap, rects = rect_vars(S, m)
    eqs, by = _groups(et, m)
    leg = legality(n, m, spec, rects, True, lf)
    if S.mode != "sym":
        for name, (grp, c) in leg.items():
            S.assume(c)
        for g, e in eqs:
            S.ensure(f"legal=>met::{g}::{e.name}", _conc_met0(et, e))
        return
    S.cover("legal-configurations-exist")
    positive = [symx._b(sand(v["w"] > 0, v["h"] > 0)) for v in rects.values()]
    by_group = {}
    for name, (grp, c) in leg.items():
        zc = symx._b(c)
        by_group.setdefault(grp, []).append((zvars(zc), zc))
    for k_, (g, e) in enumerate(eqs):
        if k_ % 4 != part:
            continue
        side = []
        tr = Translator(et, varmap, side)
        cond = met(et, e, tr)
        ev = eq_vars(e)
        # hypotheses: the legality clauses of the matching group over (a subset of) the equation's variables (+ positive sizes)
        rel = [zc for vs, zc in by_group.get(g, []) if vs <= ev] or [zc for vs, zc in by_group.get(g, [])]
        if g == "Area":
            rel += [zc for vs, zc in by_group.get("Fix", []) if vs & ev]
        S.ensure_closed(f"legal=>met::{g}::{e.name}", positive + rel + side, cond)
    S.ensure("legal=>met::equation_groups_present", set(by) >= {"Area", "Inter"} and any(g == "Bounds" for g, _ in eqs))


def _conc_met0(et, e):
    """is_equation_met with the slack at 0 (concrete replay)"""
    eps0 = et.epsilon
    et.set_epsilon(et.ExpressionTree(e.lhs.gekko, 0.0))
    try:
        return bool(e.is_equation_met())
    finally:
        et.epsilon = eps0


@contract(P, functions=[L + "legalfloor.Model.first_build_model", L + "expression_tree.Equation.is_equation_met"],
          scope="per instance (netlist constants concrete), ALL configurations symbolic", params=[dict(inst=i) for i in QUICK],
          budget_s=1500, vc_timeout_s=150, crosscheck=False)      # its obligations are closed (no concrete counterpart of the hypotheses)
def met_implies_legal(S, inst):
    """for all configurations: every equation of a group is met  =>  the legality clauses that group is responsible for hold
    (within the documented tolerances)"""
    lf, et, n, m, spec = build(inst)
    varmap, rects = rect_vars(S, m)
    eqs, by = _groups(et, m)
    leg = legality(n, m, spec, rects, False, lf)
    if S.mode != "sym":
        return
    hyp = {}
    for g in by:
        hyp[g] = []
        for e in by[g]:
            side = []
            tr = Translator(et, varmap, side)
            hyp[g].append((eq_vars(e), [met(et, e, tr)] + side))
    # the variable bounds of the model (GEKKO bounds): 0.1 <= w,h are hypotheses too
    bounds = [symx._b(sand(v["w"] >= 0.1, v["h"] >= 0.1)) for v in rects.values()]
    for name, (grp, c) in leg.items():
        cv = zvars(symx._b(c))
        rel = [h for vs, hs in hyp.get(grp, []) if vs <= cv for h in hs]
        if not rel:
            rel = [h for vs, hs in hyp.get(grp, []) if vs & cv for h in hs]
        S.ensure_closed(f"met=>legal::{name}", bounds + rel, c)


@contract(P, kind="enum", functions=[L + "legalfloor.Model.first_build_model", L + "expression_tree.ExpressionTree.evaluate"],
          scope="the instances; 30 random configurations each for the translator cross-check")
def initial_configuration_is_met_and_translator_agrees(replay=None):
    """(a) the input configuration of each (legal) instance satisfies every equation; (b) the z3 translation of every
    equation agrees with ExpressionTree.evaluate() on random configurations (cross-validation of the translator)"""
    failures, evals, nontriv = [], 0, 0
    rng = random.Random(7)
    samples = []
    for inst in QUICK:
        lf, et, n, m, spec = build(inst)
        eqs = equations(m)
        with contextlib.redirect_stdout(io.StringIO()):
            eps0 = et.epsilon
            et.set_epsilon(et.ExpressionTree(m.gekko.gekko, 0.0))
        try:
            for g, e in eqs:
                evals += 1
                nontriv += 1
                if not e.is_equation_met():
                    failures.append(dict(clause="input_configuration_of_a_legal_floorplan_is_met", instance=inst, group=g, equation=e.name,
                                         lhs=e.lhs.evaluate(), rhs=e.rhs.evaluate()))
            # translator cross-check
            names = {}
            for i, mod in enumerate(m.M):
                for j in range(mod.c):
                    for k, lst in (("x", mod.x), ("y", mod.y), ("w", mod.w), ("h", mod.h)):
                        names[f"{k}{i}i{j}"] = lst[j]
            for _ in range(30):
                vals = {nm: rng.uniform(0.2, spec["die"][0]) for nm in names}
                for nm, var in names.items():
                    var.assign(vals[nm])
                zvars = {nm: z3.RealVal(repr(v)) for nm, v in vals.items()}
                for g, e in eqs:
                    side = []
                    tr = Translator(et, zvars, side)
                    for part in (e.lhs, e.rhs):
                        evals += 1
                        zt = tr.tr(part)
                        s = z3.Solver()
                        s.add(*side)
                        x = z3.Real("__v")
                        s.add(x == zt)
                        if s.check() != z3.sat:
                            failures.append(dict(clause="translator_agrees_with_evaluate", instance=inst, equation=e.name, observed="unsat"))
                            continue
                        zv = s.model().eval(x, model_completion=True)
                        zf = float(zv.as_fraction()) if z3.is_rational_value(zv) else float(zv.approx(20).as_fraction())
                        pv = part.evaluate()
                        if abs(zf - pv) > 1e-7 * max(1.0, abs(pv)):
                            failures.append(dict(clause="translator_agrees_with_evaluate", instance=inst, equation=e.name, z3=zf, evaluate=pv))
            samples.append(dict(instance=inst, equations=len(eqs)))
        finally:
            et.epsilon = eps0
        if len(failures) > 6:
            break
    return dict(evaluations=evals, distinct_nontrivial=nontriv, exhaustive=False, failures=failures[:6],
                rule="each instance: all equations evaluated on the input configuration (slack 0); translator vs evaluate() on 30 random "
                     "configurations per instance; non-trivial = equations of the instances", samples=samples, bound=f"{len(QUICK)} instances")


@contract(P, canary=True, params=[dict(inst="two_soft_singles")])
def canary_overlapping_configurations_are_met(S, inst):
    lf, et, n, m, spec = build(inst)
    varmap, rects = rect_vars(S, m)
    eqs, by = _groups(et, m)
    side = []
    tr = Translator(et, varmap, side)
    for sd in side:
        S._add(sd)
    e = by["Inter"][0]
    c = met(et, e, tr)
    for sd in side:
        S._add(sd)
    S.ensure("canary.inter_equation_always_met", symx.SymBool(c))
