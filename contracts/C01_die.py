"""C01 -- die decomposition is an exact tiling (frame/die/die.py, frame/die/yaml_parse_die.py)."""
import itertools
import os
import random

from vf.core import contract
from vf.specs import box, ovl, box_inside, box_eq, interiors_disjoint
from .common import *  # noqa
import frame.die.die as diemod
import frame.die.yaml_parse_die as ypd
from frame.die.die import Die
from frame.netlist.netlist import Netlist

core.shim(diemod, ypd)
P = "C01"
D = "frame.die.die.Die."
Y = "frame.die.yaml_parse_die."


# ---- input validation (tree level) -------------------------------------------------------------------------------------

@contract(P, functions=[Y + "parse_yaml_die", Y + "parse_die_rectangle"], params=[dict(k=k) for k in (0, 1, 2)])
def parse_yaml_die_wellformed(S, k):
    W, H = S.real("W"), S.real("H")
    regs, tags = [], []
    for i in range(k):
        tag = S.choice(f"tag{i}", ["A", "#", "B_2"])
        regs.append([S.real(f"x{i}"), S.real(f"y{i}"), S.real(f"w{i}"), S.real(f"h{i}"), tag])
        tags.append(tag)
    tree = {"width": W, "height": H}
    if k:
        tree["regions"] = regs
    out = S.call(ypd.parse_yaml_die, tree)
    valid = sand(W > 0, H > 0, *[sand(r[0] >= 0, r[1] >= 0, r[2] > 0, r[3] > 0) for r in regs])
    S.ensure("parse_yaml_die.accepts_iff_sizes_positive_and_coordinates_nonnegative", siff(out.ok, valid))
    S.ensure("parse_yaml_die.rejection_is_an_assertion", out.ok or out.raised(AssertionError))
    if not out.ok:
        return
    die, regions = out.value
    S.ensure("parse_yaml_die.die_is_WxH_at_the_origin", box_eq(box(die), (0, 0, W, H)))
    S.ensure("parse_yaml_die.regions_reported_in_order_with_their_tags",
             len(regions) == k and sand(*[sand(seq(g.center.x, r[0]), seq(g.center.y, r[1]), seq(g.shape.w, r[2]), seq(g.shape.h, r[3]),
                                               g.region == r[4] and not g.fixed) for g, r in zip(regions, regs)]))


@contract(P, functions=[Y + "parse_yaml_die", Y + "parse_die_rectangle"],
          params=[dict(case=c) for c in ("ground_tag", "bad_tag", "non_string_tag", "unknown_key", "four_values", "six_values",
                                         "missing_width", "regions_empty", "not_a_dict", "string_number", "single_flat_region")])
def parse_yaml_die_malformed(S, case):
    W, H = S.real("W", pos=True), S.real("H", pos=True)
    r = [S.real("x", nonneg=True), S.real("y", nonneg=True), S.real("w", pos=True), S.real("h", pos=True), "A"]
    tree = {"width": W, "height": H, "regions": [r]}
    if case == "ground_tag":
        r[4] = "_"
    elif case == "bad_tag":
        r[4] = "1a"
    elif case == "non_string_tag":
        r[4] = 7
    elif case == "unknown_key":
        tree["depth"] = 1
    elif case == "four_values":
        r.pop()
    elif case == "six_values":
        r.append("B")
    elif case == "missing_width":
        del tree["width"]
    elif case == "regions_empty":
        tree["regions"] = []
    elif case == "not_a_dict":
        tree = [W, H]
    elif case == "string_number":
        r[0] = "3"
    elif case == "single_flat_region":
        tree["regions"] = r
    out = S.call(ypd.parse_yaml_die, tree)
    if case == "single_flat_region":
        S.ensure("parse_yaml_die.single_region_may_be_written_flat", out.ok and len(out.value[1]) == 1)
    else:
        S.ensure("parse_yaml_die.malformed_description_rejected", out.raised(AssertionError))


# ---- the self-check of the constructor: accepted <=> tiling (ASSERT-ALL) ------------------------------------------------

def bare_die(W, H, spec=(), ground=(), block=(), fixed=()):
    """A Die with the given region lists.  The object is created by the REAL constructor (concrete 1x1 die) and then
    resized / refilled through its public accessors (bounding_box setters, the region lists returned by the properties),
    so that whatever the constructor initialises exists."""
    saved = (Rectangle._distance_epsilon, Rectangle._area_epsilon)
    Rectangle._distance_epsilon, Rectangle._area_epsilon = 1e-9, 1e-9
    try:
        d = Die("1x1")
    finally:
        Rectangle._distance_epsilon, Rectangle._area_epsilon = saved
    d.bounding_box.center, d.bounding_box.shape = Point(W / 2, H / 2), Shape(W, H)
    d._epsilon = smin(W, H) * 10e-12
    d.specialized_regions[:], d.ground_regions[:], d.blockages[:], d.fixed_regions[:] = list(spec), list(ground), list(block), list(fixed)
    return d


def tiling(rects, W, H, EA, eps, inside_tol=0):
    """the property's clause: all inside the die, no two overlap (beyond the area tolerance), areas sum to the die area"""
    die_box = (0 - inside_tol, 0 - inside_tol, W + inside_tol, H + inside_tol)
    total = sum(r.shape.w * r.shape.h for r in rects)
    return sand(*[box_inside(box(r), die_box) for r in rects],
                *[ovl(rects[i], rects[j]) <= EA for i in range(len(rects)) for j in range(i + 1, len(rects))],
                abs(total - W * H) < eps)


KINDS = ["spec", "ground", "block", "fixed"]


@contract(P, functions=[D + "_check_rectangles"], scope="bounded: <= 3 reported rectangles (any mix of kinds); all values symbolic",
          params=[dict(kinds=list(c)) for c in ([(k,) for k in KINDS] + [("spec", "ground"), ("block", "fixed"), ("ground", "ground"),
                                                          ("spec", "ground", "fixed")])])
def check_rectangles_accepts_iff_tiling(S, kinds):
    """Die._check_rectangles returns normally iff the reported rectangles tile the die (within the die's tolerances):
    'accepted => tiling' and 'overlapping / protruding regions => rejected' in one equivalence.  The three loops only
    assert (ASSERT-ALL shape), so the per-rectangle / per-pair facts hold for any number of rectangles."""
    E, EA = set_eps(S)
    W, H = S.real("W", pos=True), S.real("H", pos=True)
    lists = {k: [] for k in KINDS}
    rects = []
    for i, k in enumerate(kinds):
        r = mk_rect(S, f"r{i}", {"spec": "A", "ground": "_", "block": "#", "fixed": "_"}[k], k == "fixed")
        lists[k].append(r)
        rects.append(r)
    d = bare_die(W, H, lists["spec"], lists["ground"], lists["block"], lists["fixed"])
    eps = d._epsilon
    out = S.call(d._check_rectangles)
    S.ensure("check_rectangles.only_assertion_errors", out.ok or out.raised(AssertionError))
    # accepted => tiling, with 'inside' up to the die's own coordinate tolerance
    S.ensure("check_rectangles.accepted_implies_tiling", simplies(out.ok, tiling(rects, W, H, EA, eps, inside_tol=eps)))
    # a description that is not a tiling (by a clear margin) is rejected
    S.ensure("check_rectangles.non_tiling_rejected", simplies(snot(tiling(rects, W, H, EA, eps, inside_tol=eps)), snot(out.ok)))
    # an exact tiling is accepted
    S.ensure("check_rectangles.exact_tiling_accepted", simplies(tiling(rects, W, H, EA, eps, inside_tol=0), out.ok))
    S.ensure("check_rectangles.frame", all(r.region in ("A", "_", "#") for r in rects) and len(d.ground_regions) == len(lists["ground"]))


class _FakeNetlist:
    def __init__(self, rects):
        self._r = rects

    def fixed_rectangles(self):
        return list(self._r)


@contract(P, functions=[D + "__init__", Y + "parse_yaml_die"], scope="bounded: <= 3 input regions + <= 2 fixed rectangles; ground cover abstracted, self-check replaced by its contract",
          params=[dict(k=k, nf=nf) for k in (0, 1, 2, 3) for nf in (0, 1, 2)])
def constructor_reports_inputs_unchanged(S, k, nf):
    """The real Die.__init__ with the ground-cover computation abstracted (its result is an ARBITRARY list of ground
    rectangles): whenever the constructor returns, the blockages / specialised regions are the described ones, in order,
    with their tags; the fixed regions are the netlist's fixed rectangles (same objects); and everything reported tiles
    the die -- whatever the cover computation produced, because the self-check is the last step."""
    E, EA = set_eps(S)
    W, H = S.real("W", pos=True), S.real("H", pos=True)
    regs = []
    for i in range(k):
        tag = S.choice(f"tag{i}", ["A", "#"])
        regs.append([S.real(f"x{i}", nonneg=True), S.real(f"y{i}", nonneg=True), S.real(f"w{i}", pos=True), S.real(f"h{i}", pos=True), tag])
    tree = {"width": W, "height": H}
    if k:
        tree["regions"] = regs
    fixed = [mk_rect(S, f"f{i}", "_", True) for i in range(nf)]
    ground = [mk_rect(S, "g0")]

    def fake_cover(self):
        self._ground_regions = list(ground)
    S.patch(Die, "_calculate_ground_rectangles", fake_cover)
    S.patch(Die, "_calculate_cell_matrix", lambda self: None)
    S.patch(diemod, "gather_boundaries", lambda rects: ([], []))
    checked = []

    def check_stub(self):
        # contract stub of _check_rectangles (its own contract: returns normally iff the four lists tile the die)
        checked.append((list(self._specialized_regions), list(self._ground_regions), list(self._blockages), list(self._fixed),
                        self.width, self.height))
    S.patch(Die, "_check_rectangles", check_stub)
    out = S.call(Die, tree, _FakeNetlist(fixed) if nf else None)
    S.ensure("constructor.only_assertion_errors", out.ok or out.raised(AssertionError))
    S.ensure("constructor.accepts_wellformed_description_when_selfcheck_passes", out.ok)
    if not out.ok:
        return
    d = out.value
    spec_in = [r for r in regs if r[4] != "#"]
    block_in = [r for r in regs if r[4] == "#"]

    def same(g, r):
        return sand(seq(g.center.x, r[0]), seq(g.center.y, r[1]), seq(g.shape.w, r[2]), seq(g.shape.h, r[3]), g.region == r[4])
    S.ensure("constructor.specialised_regions_reported_unchanged_in_order",
             len(d.specialized_regions) == len(spec_in) and sand(*[same(g, r) for g, r in zip(d.specialized_regions, spec_in)]))
    S.ensure("constructor.blockages_reported_unchanged_in_order",
             len(d.blockages) == len(block_in) and sand(*[same(g, r) for g, r in zip(d.blockages, block_in)]))
    S.ensure("constructor.fixed_regions_are_the_netlist_fixed_rectangles",
             len(d.fixed_regions) == nf and all(a is b for a, b in zip(d.fixed_regions, fixed)))
    S.ensure("constructor.die_size", sand(seq(d.width, W), seq(d.height, H)))
    # the self-check ran exactly once, on exactly the lists that are finally reported (so 'accepted => tiling' of
    # check_rectangles_accepts_iff_tiling applies to what the user sees)
    ok = len(checked) == 1
    if ok:
        sp, gr, bl, fx, w_, h_ = checked[0]
        ok = (all(a is b for a, b in zip(sp, d.specialized_regions)) and len(sp) == len(d.specialized_regions)
              and all(a is b for a, b in zip(gr, d.ground_regions)) and len(gr) == len(d.ground_regions)
              and all(a is b for a, b in zip(bl, d.blockages)) and len(bl) == len(d.blockages)
              and all(a is b for a, b in zip(fx, d.fixed_regions)) and len(fx) == len(d.fixed_regions))
    S.ensure("constructor.selfcheck_runs_once_on_the_reported_lists", ok)


@contract(P, canary=True)
def canary_overlapping_regions_accepted(S):
    E, EA = set_eps(S)
    W, H = S.real("W", pos=True), S.real("H", pos=True)
    a, b = mk_rect(S, "a", "A"), mk_rect(S, "b", "#")
    d = bare_die(W, H, [a], [], [b], [])
    out = S.call(d._check_rectangles)
    S.ensure("canary.never_rejects", out.ok)


# ---- bounded leg: valid descriptions are accepted and decomposed into a tiling (real constructor, real YAML text) ------

def _lattice_rects(n):
    return [(x0, y0, x1, y1) for x0 in range(n) for x1 in range(x0 + 1, n + 1) for y0 in range(n) for y1 in range(y0 + 1, n + 1)]


def _disjoint(a, b):
    return a[2] <= b[0] or b[2] <= a[0] or a[3] <= b[1] or b[3] <= a[1]


def _layouts(n, max_regions, rng, triples):
    rs = _lattice_rects(n)
    yield ()
    for a in rs:
        yield (a,)
    pairs = [(a, b) for i, a in enumerate(rs) for b in rs[i + 1:] if _disjoint(a, b)]
    for p in pairs:
        yield p
    if max_regions >= 3:
        cnt = 0
        while cnt < triples:
            a, b, c = rng.sample(rs, 3)
            if _disjoint(a, b) and _disjoint(a, c) and _disjoint(b, c):
                cnt += 1
                yield (a, b, c)


SCALES = [1.0, 0.1, 0.001, 1.0 / 3.0, 123.456]
KIND_OF = ["A", "#", "fixed", "B"]


def _fmt(x):
    return repr(float(x))


def _build(layout, kinds, n, s):
    W = H = n * s
    regs, fixed = [], []
    for (x0, y0, x1, y1), k in zip(layout, kinds):
        cx, cy, w, h = (x0 + x1) / 2 * s, (y0 + y1) / 2 * s, (x1 - x0) * s, (y1 - y0) * s
        if k == "fixed":
            fixed.append((cx, cy, w, h))
        else:
            regs.append((cx, cy, w, h, k))
    txt = f"width: {_fmt(W)}\nheight: {_fmt(H)}\n"
    if regs:
        txt += "regions: [" + ", ".join(f"[{_fmt(a)}, {_fmt(b)}, {_fmt(c)}, {_fmt(d)}, '{t}']" for a, b, c, d, t in regs) + "]\n"
    net = None
    if fixed:
        net = "Modules: {\n" + ",\n".join(f"  F{i}: {{fixed: true, rectangles: [[{_fmt(a)}, {_fmt(b)}, {_fmt(c)}, {_fmt(d)}]]}}"
                                          for i, (a, b, c, d) in enumerate(fixed)) + "\n}\nNets: []\n"
    return W, H, regs, fixed, txt, net


def _check_die(W, H, regs, fixed, txt, net):
    """returns None or (clause, observed)"""
    Rectangle.undefine_epsilon()       # as in a fresh process: the die defines its own tolerance
    try:
        nl = Netlist(net) if net else None
        d = Die(txt, nl)
    except Exception as e:  # noqa
        return "valid_description_accepted", f"{type(e).__name__}: {e}"
    tol = 1e-9 * min(W, H)

    def bx(r):
        return (r.center.x - r.shape.w / 2, r.center.y - r.shape.h / 2, r.center.x + r.shape.w / 2, r.center.y + r.shape.h / 2)
    spec = [(r.center.x, r.center.y, r.shape.w, r.shape.h, r.region) for r in d.specialized_regions]
    blk = [(r.center.x, r.center.y, r.shape.w, r.shape.h, r.region) for r in d.blockages]
    fx = [(r.center.x, r.center.y, r.shape.w, r.shape.h) for r in d.fixed_regions]
    if spec != [r for r in regs if r[4] != "#"] or blk != [r for r in regs if r[4] == "#"] or fx != fixed:
        return "input_regions_reported_unchanged", dict(spec=spec, blockages=blk, fixed=fx)
    if any(r.region != "_" or r.fixed for r in d.ground_regions):
        return "ground_regions_carry_the_ground_tag", [str(r) for r in d.ground_regions]
    allr = d.specialized_regions + d.ground_regions + d.blockages + d.fixed_regions
    for r in allr:
        b = bx(r)
        if b[0] < -tol or b[1] < -tol or b[2] > W + tol or b[3] > H + tol:
            return "all_regions_inside_the_die", str(r)
    for i in range(len(allr)):
        for j in range(i + 1, len(allr)):
            a, b = bx(allr[i]), bx(allr[j])
            ox = min(a[2], b[2]) - max(a[0], b[0])
            oy = min(a[3], b[3]) - max(a[1], b[1])
            if ox > tol and oy > tol:
                return "no_two_regions_overlap", [str(allr[i]), str(allr[j])]
    tot = sum(r.shape.w * r.shape.h for r in allr)
    if abs(tot - W * H) > 1e-9 * W * H:
        return "areas_sum_to_the_die_area", dict(total=tot, die=W * H)
    return None


@contract(P, kind="enum", functions=[D + "__init__", D + "_calculate_cell_matrix", D + "_find_all_ground_rectangles",
                                     D + "_expand_rectangle", D + "_find_best_rectangle", "frame.geometry.geometry.gather_boundaries"],
          scope="bounded: all layouts of <= 2 regions (+ sampled triples) on a 5x5 lattice, 5 scalings (thorough: every kind assignment of every pair, 30000 triples)", params=[dict(chunk=i) for i in range(16)])
def valid_dies_are_accepted_and_tiled(chunk, replay=None):
    tier = os.environ.get("VERIF_TIER", "quick")
    seed = int(os.environ.get("VERIF_SEED", "0") or 0)
    n = 5
    rng = random.Random(seed * 7919 + 13)
    failures, evals, nontrivial, samples = [], 0, 0, []
    seen = set()
    if replay:
        items = [(tuple(map(tuple, replay["layout"])), tuple(replay["kinds"]), replay["scale"])]
    else:
        items = []
        idx = 0
        for layout in _layouts(n, 3, rng, 3000 if tier != "thorough" else 30000):
            if len(layout) <= 1 or (tier == "thorough" and len(layout) == 2):
                kind_sets = list(itertools.product(KIND_OF[:3], repeat=len(layout)))
            else:
                kind_sets = [tuple(rng.choice(KIND_OF) for _ in layout) for _ in range(2)]
            for kinds in kind_sets:
                idx += 1
                if idx % 16 != chunk:
                    continue
                for s in SCALES:
                    items.append((layout, kinds, s))
    for layout, kinds, s in items:
        W, H, regs, fixed, txt, net = _build(layout, kinds, n, s)
        evals += 1
        res = _check_die(W, H, regs, fixed, txt, net)
        key = (layout, kinds, s)
        if layout and key not in seen:
            seen.add(key)
            nontrivial += 1
        if len(samples) < 2 and layout:
            samples.append(dict(layout=layout, kinds=kinds, scale=s, yaml=txt))
        if res:
            failures.append(dict(clause=res[0], layout=layout, kinds=kinds, scale=s, observed=res[1], yaml=txt, netlist=net))
    Rectangle.undefine_epsilon()
    return dict(evaluations=evals, distinct_nontrivial=nontrivial, exhaustive=False, failures=failures[:6],
                rule="valid die descriptions: every placement of 0, 1, 2 pairwise non-overlapping lattice rectangles (and sampled "
                     "triples) on an NxN lattice, each tagged specialised / blockage / fixed(netlist), die scaled by "
                     "1, 0.1, 0.001, 1/3, 123.456 (decimal and non-representable coordinates, regions touching each other and "
                     "the border), written as YAML text and loaded by the real Die(...); oracle in doubles with relative "
                     "tolerance 1e-9; non-trivial = distinct (layout, kinds, scale) with at least one region",
                samples=samples, bound=f"N={n}")


# ---- bounded leg: larger descriptions (the exhaustive leg stops at 3 regions on a 5x5 lattice) -------------------------------------------

@contract(P, kind="enum", functions=[D + "__init__", D + "_calculate_cell_matrix", D + "_find_all_ground_rectangles", D + "_check_rectangles",
                                     "frame.geometry.geometry.gather_boundaries"],
          scope="bounded: random layouts of 4-9 pairwise disjoint regions on a 9x7 lattice (non-square die), 5 scalings; each also spoilt by one "
                "overlap or one region leaving the die", params=[dict(chunk=i) for i in range(8)])
def larger_descriptions(chunk, replay=None):
    tier = os.environ.get("VERIF_TIER", "quick")
    rng = random.Random(100 + chunk + 100 * int(os.environ.get("VERIF_SEED", "0") or 0))
    n_cases = 25 if tier != "thorough" else 500
    NX, NY = 9, 7
    failures, evals, nontriv, samples = [], 0, 0, []
    import tempfile
    tmpdir = tempfile.mkdtemp(prefix="vf_c01_")
    die_file = os.path.join(tmpdir, "die.yaml")

    def build(layout, kinds, s):
        W, H = NX * s, NY * s
        regs, fixed = [], []
        for (x0, y0, x1, y1), k in zip(layout, kinds):
            cx, cy, w, h = (x0 + x1) / 2 * s, (y0 + y1) / 2 * s, (x1 - x0) * s, (y1 - y0) * s
            (fixed if k == "fixed" else regs).append((cx, cy, w, h) if k == "fixed" else (cx, cy, w, h, k))
        txt = f"width: {_fmt(W)}\nheight: {_fmt(H)}\n"
        if regs:
            txt += "regions: [" + ", ".join(f"[{_fmt(a)}, {_fmt(b)}, {_fmt(c)}, {_fmt(d)}, '{t}']" for a, b, c, d, t in regs) + "]\n"
        net = None
        if fixed:
            net = "Modules: {\n" + ",\n".join(f"  F{i}: {{fixed: true, rectangles: [[{_fmt(a)}, {_fmt(b)}, {_fmt(c)}, {_fmt(d)}]]}}"
                                              for i, (a, b, c, d) in enumerate(fixed)) + "\n}\nNets: []\n"
        return W, H, regs, fixed, txt, net

    for it in range(n_cases):
        if replay:
            layout, kinds, s, spoil = [tuple(r) for r in replay["layout"]], replay["kinds"], replay["scale"], replay.get("spoil")
        else:
            layout = []
            for _ in range(rng.randint(4, 9)):
                for _try in range(30):
                    w, h = rng.choice([1, 1, 2, 3]), rng.choice([1, 1, 2, 3])
                    x0, y0 = rng.randint(0, NX - w), rng.randint(0, NY - h)
                    b = (x0, y0, x0 + w, y0 + h)
                    if all(_disjoint(b, o) for o in layout):
                        layout.append(b)
                        break
            kinds = [rng.choice(KIND_OF) for _ in layout]
            s = rng.choice(SCALES)
            spoil = None
        W, H, regs, fixed, txt, net = build(layout, kinds, s)
        evals += 1
        if not spoil:
            res = _check_die(W, H, regs, fixed, txt, net)
            nontriv += 1
            if res:
                failures.append(dict(clause="big." + res[0], layout=layout, kinds=kinds, scale=s, observed=res[1], yaml=txt, netlist=net))
            else:
                # the same description given as a FILE NAME; the file is rewritten for every case (added after seed C01-11: descriptions
                # memoised by their string argument returned the previous content of the file)
                if replay:      # the file held another description before, as in the run that found the failure
                    with open(die_file, "w") as fh:
                        fh.write("width: 3\nheight: 2\n")
                    try:
                        Die(die_file)
                    except Exception:  # noqa
                        pass
                with open(die_file, "w") as fh:
                    fh.write(txt)
                evals += 1
                res = _check_die(W, H, regs, fixed, die_file, net)
                if res:
                    failures.append(dict(clause="big.from_a_file." + res[0], layout=layout, kinds=kinds, scale=s, observed=res[1], yaml=txt, netlist=net,
                                         note="the description was read from a file that held another description before"))
            if not samples:
                samples.append(dict(regions=len(layout), scale=s, yaml=txt))
        # the same description with one defect: two regions overlapping by a lattice cell, or one region leaving the die
        if replay and not spoil:
            break
        if not replay:
            i = rng.randrange(len(layout))
            x0, y0, x1, y1 = layout[i]
            others = [o for j, o in enumerate(layout) if j != i]
            cands = []
            for o in others:       # stretch region i until it covers a cell of another region
                b = (min(x0, o[0]), min(y0, o[1]), max(x1, o[0] + 1), max(y1, o[1] + 1))
                cands.append(("overlap", b))
            cands.append(("outside", (x0, y0, NX + 1, y1)))
            cands.append(("outside", (x0 - (x0 + 1), y0, x1, y1)))
            if s >= 0.1:
                # a THIN overlap with a region that shares an edge: 2e-8 lattice units deep, thousands of times the die's own tolerance (1e-11 of
                # its short side) but far below the pairwise area tolerance -- only the exact area sum sees it (after the open seed r8-C01-2)
                for o in others:
                    if o[0] == x1 and min(y1, o[3]) - max(y0, o[1]) > 0:
                        cands += [("thin_overlap", (x0, y0, x1 + 2e-8, y1))] * 3
            spoil, b = rng.choice(cands)
            bad_layout = list(layout)
            bad_layout[i] = b
        else:
            bad_layout = layout
        W, H, regs, fixed, txt, net = build(bad_layout, kinds, s)
        evals += 1
        Rectangle.undefine_epsilon()
        try:
            Die(txt, Netlist(net) if net else None)
            failures.append(dict(clause="big.invalid_description_rejected", spoil=spoil, layout=bad_layout, kinds=kinds, scale=s, yaml=txt, netlist=net))
        except AssertionError:
            pass
        except Exception as e:  # noqa
            failures.append(dict(clause="big.invalid_description_rejected_cleanly", spoil=spoil, layout=bad_layout, kinds=kinds, scale=s, observed=f"{type(e).__name__}: {e}",
                                 yaml=txt, netlist=net))
        if len(failures) >= 4 or replay:
            break
    Rectangle.undefine_epsilon()
    import shutil
    shutil.rmtree(tmpdir, ignore_errors=True)
    return dict(evaluations=evals, distinct_nontrivial=nontriv, exhaustive=False, failures=failures[:4],
                rule="random layouts of 4-9 pairwise disjoint lattice rectangles (tagged specialised A / B, blockage, fixed by a netlist) on a 9x7 lattice, die "
                     "scaled by 1, 0.1, 0.001, 1/3, 123.456, through the YAML text and the real constructor: accepted, inputs reported unchanged, exact tiling; "
                     "then one region is stretched over a cell of another region or out of the die: rejected with an AssertionError",
                samples=samples, bound=f"{n_cases} layouts per chunk")
