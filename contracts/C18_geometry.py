"""C18 -- Rectangle operations agree with plane geometry.  Contracts on frame/geometry/geometry.py::Rectangle."""
from vf.core import contract
from vf.specs import box, ovl, box_ovl, box_inside, box_eq, interiors_disjoint, box_area
from .common import *  # noqa

P = "C18"
G = "frame.geometry.geometry.Rectangle."


@contract(P, functions=[G + "bounding_box", G + "area"])
def bounding_box_area(S):
    r = mk_rect(S, "a")
    out = S.call(lambda: r.bounding_box)
    S.ensure("bounding_box.no_raise", out.ok)
    if out.ok:
        bb = out.value
        b = box(r)
        S.ensure("bounding_box.equals_spec", sand(seq(bb.ll.x, b[0]), seq(bb.ll.y, b[1]), seq(bb.ur.x, b[2]), seq(bb.ur.y, b[3])))
    out = S.call(lambda: r.area)
    S.ensure("area.equals_w_times_h", sand(out.ok, seq(out.value, r.shape.w * r.shape.h)) if out.ok else False)


@contract(P, functions=[G + "area_overlap"])
def area_overlap(S):
    a, b = mk_rect(S, "a"), mk_rect(S, "b")
    o1 = S.call(a.area_overlap, b)
    o2 = S.call(b.area_overlap, a)
    S.ensure("area_overlap.no_raise", o1.ok and o2.ok)
    if o1.ok and o2.ok:
        S.ensure("area_overlap.equals_common_area", seq(o1.value, ovl(a, b)))
        S.ensure("area_overlap.symmetric", seq(o1.value, o2.value))
        S.ensure("area_overlap.bounds", sand(o1.value >= 0, o1.value <= smin(a.shape.w * a.shape.h, b.shape.w * b.shape.h)))


@contract(P, canary=True)
def canary_area_overlap_is_zero(S):
    a, b = mk_rect(S, "a"), mk_rect(S, "b")
    o1 = S.call(a.area_overlap, b)
    S.ensure("canary.area_overlap_always_zero", seq(o1.value, 0) if o1.ok else False)


@contract(P, functions=[G + "overlap"])
def overlap(S):
    E, EA = set_eps(S)
    a, b = mk_rect(S, "a"), mk_rect(S, "b")
    o1, o2 = S.call(a.overlap, b), S.call(b.overlap, a)
    S.ensure("overlap.no_raise", o1.ok and o2.ok)
    if o1.ok and o2.ok:
        S.ensure("overlap.iff_common_area_gt_tolerance", siff(o1.value, ovl(a, b) > EA))
        S.ensure("overlap.symmetric", siff(o1.value, o2.value))


@contract(P, functions=[G + "__mul__"])
def intersection(S):
    ra = S.choice("ra", ["_", "A"])
    rb = S.choice("rb", ["_", "A"])
    # region names are EQUAL strings, not the same object (names read from a document are built at run time; added after seed C18-8,
    # which compared regions with `is`)
    ra, rb = "".join(list(ra)), "".join(list(rb))
    fa, ha = S.bool("fa"), S.bool("ha")
    a, b = mk_rect(S, "a", ra, fa, ha), mk_rect(S, "b", rb)
    if ra == "A" and rb == "A":
        a.region, b.region = "".join(["A", ""]) + "", str(bytes([65]), "ascii")
        S.ensure("mul.harness_regions_are_distinct_objects", a.region is not b.region and a.region == b.region)
    o1, o2 = S.call(lambda: a * b), S.call(lambda: b * a)
    S.ensure("mul.no_raise", o1.ok and o2.ok)
    if not (o1.ok and o2.ok):
        return
    r, r2 = o1.value, o2.value
    common = ovl(a, b)
    exists = sand(ra == rb, common > 0)
    S.ensure("mul.exists_iff_same_region_and_positive_common_area", siff(r is not None, exists))
    S.ensure("mul.symmetric_existence", (r is None) == (r2 is None))
    if r is not None:
        A, B, R = box(a), box(b), box(r)
        inter = (smax(A[0], B[0]), smax(A[1], B[1]), smin(A[2], B[2]), smin(A[3], B[3]))
        S.ensure("mul.box_is_intersection", box_eq(R, inter))
        S.ensure("mul.inside_both", sand(box_inside(R, A), box_inside(R, B)))
        S.ensure("mul.area_is_common_area", seq(r.shape.w * r.shape.h, common))
        S.ensure("mul.attributes_of_left_operand", attrs_eq(r, a))
        S.ensure("mul.positive_shape", sand(r.shape.w > 0, r.shape.h > 0))
        if r2 is not None:
            S.ensure("mul.symmetric_box", box_eq(R, box(r2)))


@contract(P, functions=[G + "set_epsilon", G + "undefine_epsilon", G + "epsilon_defined", G + "distance_epsilon", G + "area_epsilon", G + "touches"])
def the_tolerance_in_force_is_the_last_one_set(S):
    """added after seed C18-7 (set_epsilon ignored once a tolerance was defined): 'within the distance tolerance' means the tolerance the
    accessors report, which is the one set last; the contracts of this file set the class attributes directly and did not see the setter"""
    e1, e2 = S.real("e1", pos=True), S.real("e2", pos=True)
    ea2 = S.real("ea2", nonneg=True)
    R = Rectangle
    R.undefine_epsilon()
    S.ensure("tolerance.undefined_at_first", not R.epsilon_defined())
    o1 = S.call(R.set_epsilon, e1)
    S.ensure("tolerance.defined_after_set", o1.ok and R.epsilon_defined() and seq(R.distance_epsilon(), e1) and
             seq(R.area_epsilon() * R.area_epsilon(), e1) and R.area_epsilon() >= 0)
    o2 = S.call(R.set_epsilon, e2, ea2)
    S.ensure("tolerance.a_later_set_replaces_the_earlier_one", o2.ok and seq(R.distance_epsilon(), e2) and seq(R.area_epsilon(), ea2))
    a, b = mk_rect(S, "a"), mk_rect(S, "b")
    A, B = box(a), box(b)
    gap_x = smax(A[0], B[0]) - smin(A[2], B[2])
    gap_y = smax(A[1], B[1]) - smin(A[3], B[3])
    t = S.call(a.touches, b)
    S.ensure("tolerance.touches_uses_the_tolerance_in_force", t.ok and siff(t.value, sand(gap_x <= e2, gap_y <= e2)))
    R.undefine_epsilon()
    S.ensure("tolerance.undefined_after_undefine", not R.epsilon_defined())


@contract(P, functions=[G + "is_inside", G + "point_inside", G + "touches"])
def containment_touching(S):
    E, EA = set_eps(S)
    a, b = mk_rect(S, "a"), mk_rect(S, "b")
    px, py = S.real("px"), S.real("py")
    A, B = box(a), box(b)
    o = S.call(a.is_inside, b)
    S.ensure("is_inside.iff_box_contained", siff(o.value, box_inside(A, B)) if o.ok else False)
    o = S.call(a.point_inside, Point(px, py))
    S.ensure("point_inside.iff_in_closed_box",
             siff(o.value, sand(A[0] <= px, px <= A[2], A[1] <= py, py <= A[3])) if o.ok else False)
    o1, o2 = S.call(a.touches, b), S.call(b.touches, a)
    if o1.ok and o2.ok:
        gapx = smax(A[0] - B[2], B[0] - A[2])
        gapy = smax(A[1] - B[3], B[1] - A[3])
        S.ensure("touches.iff_both_axis_gaps_within_tolerance", siff(o1.value, sand(gapx <= E, gapy <= E)))
        S.ensure("touches.symmetric", siff(o1.value, o2.value))
    else:
        S.ensure("touches.no_raise", False)


@contract(P, functions=[G + "__eq__", G + "duplicate"])
def equality_duplicate(S):
    ra = S.choice("ra", ["_", "A"])
    rb = S.choice("rb", ["_", "A"])
    # region names are EQUAL strings, not the same object (names read from a document are built at run time; added after seed C18-8,
    # which compared regions with `is`)
    ra, rb = "".join(list(ra)), "".join(list(rb))
    fa, ha = S.bool("fa"), S.bool("ha")
    a, b = mk_rect(S, "a", ra, fa, ha), mk_rect(S, "b", rb)
    if ra == "A" and rb == "A":
        a.region, b.region = "".join(["A", ""]) + "", str(bytes([65]), "ascii")
        S.ensure("mul.harness_regions_are_distinct_objects", a.region is not b.region and a.region == b.region)
    o = S.call(lambda: a == b)
    same = sand(seq(a.center.x, b.center.x), seq(a.center.y, b.center.y), seq(a.shape.w, b.shape.w),
                seq(a.shape.h, b.shape.h), ra == rb)
    S.ensure("eq.iff_same_centre_shape_region", siff(o.value, same) if o.ok else False)
    o = S.call(lambda: a == 3)
    S.ensure("eq.other_type_is_false", o.ok and o.value is False)
    d = S.call(a.duplicate)
    if d.ok:
        d = d.value
        S.ensure("duplicate.same_box_and_attributes", sand(box_eq(box(d), box(a)), attrs_eq(d, a)))
        S.ensure("duplicate.is_new_object", d is not a)
        S.ensure("duplicate.no_role", d.location == Rectangle.StogLocation.NO_POLYGON)
    else:
        S.ensure("duplicate.no_raise", False)


def _split_post(S, pre, r, out, lo, hi, cut, axis):
    """Common postcondition of the three splitting operations (axis 0: cut at x=cut, 1: cut at y=cut)."""
    inside = sand(lo < cut, cut < hi)
    S.ensure(pre + ".raises_iff_cut_not_strictly_inside", siff(out.raised(AssertionError), snot(inside)))
    S.ensure(pre + ".only_assertion_errors", out.ok or out.raised(AssertionError))
    if not out.ok:
        return
    r1, r2 = out.value
    R, B1, B2 = box(r), box(r1), box(r2)
    if axis == 0:
        e1 = (R[0], R[1], cut, R[3])
        e2 = (cut, R[1], R[2], R[3])
    else:
        e1 = (R[0], R[1], R[2], cut)
        e2 = (R[0], cut, R[2], R[3])
    S.ensure(pre + ".pieces_are_the_two_sides_of_the_cut", sand(box_eq(B1, e1), box_eq(B2, e2)))
    S.ensure(pre + ".pieces_have_disjoint_interiors", interiors_disjoint(B1, B2))
    S.ensure(pre + ".pieces_inside", sand(box_inside(B1, R), box_inside(B2, R)))
    S.ensure(pre + ".areas_add_up", seq(r1.shape.w * r1.shape.h + r2.shape.w * r2.shape.h, r.shape.w * r.shape.h))
    S.ensure(pre + ".positive_shapes", sand(r1.shape.w > 0, r1.shape.h > 0, r2.shape.w > 0, r2.shape.h > 0))
    A1, A2, A = r1.shape.w * r1.shape.h, r2.shape.w * r2.shape.h, r.shape.w * r.shape.h
    S.ensure(pre + ".area_weighted_centre_adds_up",
             sand(seq(A1 * r1.center.x + A2 * r2.center.x, A * r.center.x),
                  seq(A1 * r1.center.y + A2 * r2.center.y, A * r.center.y)))
    S.ensure(pre + ".attributes_inherited", attrs_eq(r1, r) and attrs_eq(r2, r))
    S.ensure(pre + ".new_objects", r1 is not r and r2 is not r and r1 is not r2 and r1.center is not r2.center
             and r1.shape is not r2.shape)


@contract(P, functions=[G + "split_horizontal", G + "split_vertical"])
def split_at(S):
    reg = S.choice("reg", ["_", "A"])
    fx = S.bool("fixed")
    r = mk_rect(S, "r", reg, fx, False)
    c = S.real("c")
    R = box(r)
    out = S.call(r.split_horizontal, c)
    _split_post(S, "split_horizontal", r, out, R[0], R[2], sif(c < 0, r.center.x, c), 0)
    out = S.call(r.split_vertical, c)
    _split_post(S, "split_vertical", r, out, R[1], R[3], sif(c < 0, r.center.y, c), 1)


@contract(P, functions=[G + "split_horizontal", G + "split_vertical"])
def split_default_halves(S):
    """the default argument halves the rectangle (centre coordinate >= 0: the API uses a negative cut as 'halve')"""
    r = mk_rect(S, "r")
    R = box(r)
    out = S.call(r.split_horizontal)
    _split_post(S, "split_horizontal_default", r, out, R[0], R[2], r.center.x, 0)
    out = S.call(r.split_vertical)
    _split_post(S, "split_vertical_default", r, out, R[1], R[3], r.center.y, 1)


@contract(P, functions=[G + "split"])
def split_halves_longer_side(S):
    reg = S.choice("reg", ["_", "A"])
    r = mk_rect(S, "r", reg)
    R = box(r)
    out = S.call(r.split)
    S.ensure("split.never_raises", out.ok)
    if not out.ok:
        return
    r1, r2 = out.value
    tall = r.shape.h > r.shape.w
    # halving the longer side: pieces keep the shorter side, the longer one is halved
    S.ensure("split.halves_longer_side",
             sif(tall,
                 sand(seq(r1.shape.h, r.shape.h / 2), seq(r2.shape.h, r.shape.h / 2), seq(r1.shape.w, r.shape.w), seq(r2.shape.w, r.shape.w)),
                 sand(seq(r1.shape.w, r.shape.w / 2), seq(r2.shape.w, r.shape.w / 2), seq(r1.shape.h, r.shape.h), seq(r2.shape.h, r.shape.h))))
    B1, B2 = box(r1), box(r2)
    S.ensure("split.pieces_tile", sand(interiors_disjoint(B1, B2), box_inside(B1, R), box_inside(B2, R),
                                       seq(box_area(B1) + box_area(B2), box_area(R))))
    S.ensure("split.attributes_inherited", attrs_eq(r1, r) and attrs_eq(r2, r))


@contract(P, functions=[G + "x_cuttable", G + "y_cuttable"])
def cuttable(S):
    r = mk_rect(S, "r")
    c = S.real("c")
    rho = S.real("rho", nonneg=True)
    R = box(r)
    for nm, fn, lo, hi in (("x_cuttable", r.x_cuttable, R[0], R[2]), ("y_cuttable", r.y_cuttable, R[1], R[3])):
        out = S.call(fn, c, rho)
        S.ensure(nm + ".no_raise", out.ok)
        if out.ok:
            S.ensure(nm + ".only_if_strictly_inside", simplies(out.value, sand(lo < c, c < hi)))
            m = smin(c - lo, hi - c)
            S.ensure(nm + ".always_when_no_sliver", simplies(sand(m > rho * r.shape.w, m > rho * r.shape.h), out.value))
    out = S.call(r.x_cuttable, c)
    if out.ok:
        m = smin(c - R[0], R[2] - c)
        S.ensure("x_cuttable.default_fraction_is_1_percent",
                 simplies(sand(m > 0.01 * r.shape.w, m > 0.01 * r.shape.h), out.value))  # 0.01: the double, as documented


@contract(P, functions=[G + "rectangle_grid"], scope="bounded: rows, cols <= 3 (all values symbolic)",
          params=[dict(nr=a, nc=b) for a in (1, 2, 3) for b in (1, 2, 3)])
def rectangle_grid_small(S, nr, nc):
    reg = S.choice("reg", ["_", "A"])
    r = mk_rect(S, "r", reg)
    R = box(r)
    out = S.call(r.rectangle_grid, nr, nc)
    S.ensure("rectangle_grid.no_raise", out.ok)
    if not out.ok:
        return
    g = out.value
    S.ensure("rectangle_grid.count", len(g) == nr * nc)
    sx, sy = r.shape.w / nc, r.shape.h / nr
    ok = []
    for row in range(nr):
        for col in range(nc):
            p = g[row * nc + col]
            e = (R[0] + col * sx, R[1] + row * sy, R[0] + (col + 1) * sx, R[1] + (row + 1) * sy)
            ok.append(box_eq(box(p), e))
            ok.append(attrs_eq(p, r))
    S.ensure("rectangle_grid.piece_row_col_is_the_grid_cell", sand(*ok))
    S.ensure("rectangle_grid.areas_add_up", seq(sum(p.shape.w * p.shape.h for p in g), r.shape.w * r.shape.h))
    S.ensure("rectangle_grid.distinct_objects", len({id(p) for p in g}) == len(g) and all(p is not r for p in g))


@contract(P, functions=[G + "rectangle_grid"])
def rectangle_grid_rejects(S):
    r = mk_rect(S, "r")
    nr, nc = S.choice("nr", [0, -1, 1]), S.choice("nc", [0, 2])
    out = S.call(r.rectangle_grid, nr, nc)
    S.ensure("rectangle_grid.rejects_nonpositive_counts", siff(out.raised(AssertionError), nr <= 0 or nc <= 0))


OPS_AFTER_MOVE = ["bounding_box", "area", "area_overlap", "overlap", "is_inside", "point_inside", "touches", "mul", "split",
                  "x_cuttable"]


@contract(P, functions=[G + "bounding_box", G + "area_overlap", G + "point_inside", G + "is_inside", G + "touches",
                        G + "__mul__", G + "split", G + "x_cuttable", G + "area", G + "overlap"],
          params=[dict(op=o, how=h) for o in OPS_AFTER_MOVE
                  for h in ("center_inplace", "center_assign", "shape_inplace", "shape_assign")],
          note="rectangles are mutable (the library moves them in place: Module.recenter_rectangles, flipping): every "
               "operation must be a function of the CURRENT centre and shape, whatever was computed before")
def operations_follow_inplace_moves(S, op, how):
    E, EA = set_eps(S)
    a, b = mk_rect(S, "a"), mk_rect(S, "b")
    dx, dy = S.real("dx"), S.real("dy")
    w2, h2 = S.real("w2", pos=True), S.real("h2", pos=True)
    calls = {"bounding_box": lambda: a.bounding_box, "area": lambda: a.area, "area_overlap": lambda: (a.area_overlap(b), b.area_overlap(a)),
             "overlap": lambda: a.overlap(b), "is_inside": lambda: a.is_inside(b), "point_inside": lambda: a.point_inside(b.center),
             "touches": lambda: a.touches(b), "mul": lambda: a * b, "split": lambda: a.split(),
             "x_cuttable": lambda: a.x_cuttable(b.center.x)}
    # use the operation (and the bounding box) once: any internal cache is now warm
    S.call(lambda: a.bounding_box)
    S.call(calls[op])
    if how == "center_inplace":
        a.center.x += dx
        a.center.y += dy
    elif how == "center_assign":
        a.center = Point(a.center.x + dx, a.center.y + dy)
    elif how == "shape_inplace":
        a.shape.w = w2
        a.shape.h = h2
    else:
        a.shape = Shape(w2, h2)
    A, B = box(a), box(b)
    o = S.call(calls[op])
    nm = "after_move." + op
    if not o.ok:
        S.ensure(nm, False)
        return
    v = o.value
    if op == "bounding_box":
        S.ensure(nm, sand(seq(v.ll.x, A[0]), seq(v.ll.y, A[1]), seq(v.ur.x, A[2]), seq(v.ur.y, A[3])))
    elif op == "area":
        S.ensure(nm, seq(v, a.shape.w * a.shape.h))
    elif op == "area_overlap":
        S.ensure(nm, sand(seq(v[0], box_ovl(A, B)), seq(v[1], box_ovl(A, B))))
    elif op == "overlap":
        S.ensure(nm, siff(v, box_ovl(A, B) > EA))
    elif op == "is_inside":
        S.ensure(nm, siff(v, box_inside(A, B)))
    elif op == "point_inside":
        S.ensure(nm, siff(v, sand(A[0] <= b.center.x, b.center.x <= A[2], A[1] <= b.center.y, b.center.y <= A[3])))
    elif op == "touches":
        S.ensure(nm, siff(v, sand(smax(A[0] - B[2], B[0] - A[2]) <= E, smax(A[1] - B[3], B[1] - A[3]) <= E)))
    elif op == "mul":
        if v is not None:
            inter = (smax(A[0], B[0]), smax(A[1], B[1]), smin(A[2], B[2]), smin(A[3], B[3]))
            S.ensure(nm, box_eq(box(v), inter))
        else:
            S.ensure(nm, box_ovl(A, B) <= 0)
    elif op == "split":
        B1, B2 = box(v[0]), box(v[1])
        S.ensure(nm, sand(interiors_disjoint(B1, B2), box_inside(B1, A), box_inside(B2, A),
                          seq(box_area(B1) + box_area(B2), box_area(A))))
    elif op == "x_cuttable":
        S.ensure(nm, simplies(v, sand(A[0] < b.center.x, b.center.x < A[2])))


from vf import loopcut, loopshape  # noqa: E402


@contract(P, functions=[G + "rectangle_grid"], leak_ok=True, note="loop cut: both range loops replaced by one arbitrary (row, col); rows and columns SYMBOLIC")
def rectangle_grid_any_size(S):
    """rectangle_grid(nrows, ncols) for symbolic nrows, ncols >= 1: the two nested `for .. in range(..)` loops (a flat map over
    index pairs; shape checked on the AST) are cut to one arbitrary iteration (row, col).  The piece produced there is the grid
    cell (row, col) with the rectangle's attributes; distinct index pairs give interior-disjoint cells inside the rectangle
    (lemma), nrows*ncols cells of area (w/ncols)*(h/nrows) sum to w*h."""
    sh = loopshape.flatmap_shape(Rectangle.rectangle_grid, 0, accumulators=["grid"])
    reg = S.choice("reg", ["_", "A"])
    r = mk_rect(S, "r", reg)
    nr, nc = S.int("nrows"), S.int("ncols")
    idx = {}

    def arb(name, bound):
        v = S.int("idx_" + name) if S.mode == "sym" else S.int("idx_" + name)
        S.assume(sand(v >= 0, v < bound))
        idx[name] = v
        return v
    cut, info = loopcut.one_arbitrary_iteration_of_range_loops(Rectangle.rectangle_grid, arb)
    S.cover("loop-cut: " + str(info["loops"]))
    out = S.call(cut, r, nr, nc)
    S.ensure("grid.rejects_exactly_nonpositive_counts", siff(out.raised(AssertionError), sor(nr <= 0, nc <= 0)))
    if not out.ok:
        S.ensure("grid.only_assertion_errors", out.raised(AssertionError))
        return
    g = out.value
    S.ensure("grid.one_piece_per_index_pair", len(g) == 1 and set(idx) == {"row", "col"})
    if len(g) != 1:
        return
    p = g[0]
    row, col = idx["row"], idx["col"]
    R = box(r)
    sx, sy = r.shape.w / nc, r.shape.h / nr
    cell = (R[0] + col * sx, R[1] + row * sy, R[0] + (col + 1) * sx, R[1] + (row + 1) * sy)
    S.ensure("grid.piece_is_the_grid_cell_of_its_index_pair", box_eq(box(p), cell))
    S.ensure("grid.piece_inherits_attributes_and_is_a_new_object", attrs_eq(p, r) and p is not r)
    S.ensure("grid.piece_inside_the_rectangle", box_inside(box(p), R))
    # lemma: another index pair gives a cell with a disjoint interior; equal-area cells sum to the area
    row2, col2 = S.int("row2"), S.int("col2")
    S.assume(sand(row2 >= 0, row2 < nr, col2 >= 0, col2 < nc, sor(row2 < row, row2 > row, col2 < col, col2 > col)))
    cell2 = (R[0] + col2 * sx, R[1] + row2 * sy, R[0] + (col2 + 1) * sx, R[1] + (row2 + 1) * sy)
    S.ensure("grid.cells_of_distinct_index_pairs_have_disjoint_interiors", interiors_disjoint(cell, cell2))
    S.ensure("grid.cell_areas_sum_to_the_area", seq((nr * nc) * (sx * sy), r.shape.w * r.shape.h))
