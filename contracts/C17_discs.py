"""C17 -- disc-overlap area (tools/force/fruchterman_reingold.py::circle_circle_intersection_area)."""
import math
import random

from vf import core, symx
from vf.core import contract
from vf.symx import sand, sor, snot, seq, siff, simplies, sif, smin, smax
from frame.geometry.geometry import Point
import frame.geometry.geometry as geo
import tools.force.fruchterman_reingold as fr

core.shim(fr, geo)
P = "C17"
F = "tools.force.fruchterman_reingold.circle_circle_intersection_area"


def _inputs(S):
    x1, y1, x2, y2 = S.real("x1"), S.real("y1"), S.real("x2"), S.real("y2")
    r1, r2 = S.real("r1", pos=True), S.real("r2", pos=True)
    return x1, y1, x2, y2, r1, r2


@contract(P, functions=[F, "frame.geometry.geometry.Point.norm", "frame.geometry.geometry.Point.__sub__"])
def total_and_exact_cases_over_reals(S):
    """Over the reals: never raises (no division by zero, acos arguments within [-1,1]); the disjoint and nested
    cases return exactly 0 and pi*min(r)^2."""
    x1, y1, x2, y2, r1, r2 = _inputs(S)
    out = S.call(fr.circle_circle_intersection_area, Point(x1, y1), r1, Point(x2, y2), r2)
    S.ensure("total.never_raises(reals)", out.ok)
    if not out.ok:
        return
    dx, dy = x1 - x2, y1 - y2
    d2 = dx * dx + dy * dy
    rs, rd = r1 + r2, r1 - r2
    disjoint = d2 > rs * rs                 # d > r1 + r2
    nested = d2 <= rd * rd                  # d <= |r1 - r2|
    mn = smin(r1, r2)
    S.ensure("disjoint_discs_give_zero", simplies(disjoint, seq(out.value, 0)))
    S.ensure("nested_discs_give_area_of_smaller", simplies(nested, seq(out.value, math.pi * mn * mn)))
    S.ensure("bounds_in_disjoint_and_nested_cases",
             simplies(sor(disjoint, nested), sand(out.value >= 0, out.value <= math.pi * mn * mn)))


@contract(P, functions=[F], vc_timeout_s=120, budget_s=600)
def symmetric_over_reals(S):
    """f(c1,r1,c2,r2) = f(c2,r2,c1,r1) over the reals, with sin(acos x) = sqrt(1-x^2) (law of sines in the lens case)."""
    x1, y1, x2, y2, r1, r2 = _inputs(S)
    o1 = S.call(fr.circle_circle_intersection_area, Point(x1, y1), r1, Point(x2, y2), r2)
    o2 = S.call(fr.circle_circle_intersection_area, Point(x2, y2), r2, Point(x1, y1), r1)
    S.ensure("symmetric.no_raise", o1.ok and o2.ok)
    if o1.ok and o2.ok:
        dx, dy = x1 - x2, y1 - y2
        d = S.sqrt(dx * dx + dy * dy)
        lens = sand(d <= r1 + r2, d > abs(r1 - r2))
        if lens:   # (forks; the other two cases need no help)
            # ghost proof of the law of sines  r1 sin(alpha) = r2 sin(beta),  sin(acos x) = sqrt(1 - x^2)
            n1, n2 = r1 * r1 + d * d - r2 * r2, r2 * r2 + d * d - r1 * r1
            xa, xb = n1 / (2 * r1 * d), n2 / (2 * r2 * d)
            s1, s2 = S.sqrt(1 - xa * xa), S.sqrt(1 - xb * xb)
            S.lemma("symmetric.lemma1", seq(4 * d * d * r1 * r1 * s1 * s1, 4 * d * d * r1 * r1 - n1 * n1))
            S.lemma("symmetric.lemma2", seq(4 * d * d * r2 * r2 * s2 * s2, 4 * d * d * r2 * r2 - n2 * n2))
            S.lemma("symmetric.lemma3", seq(4 * d * d * r1 * r1 - n1 * n1, 4 * d * d * r2 * r2 - n2 * n2))
            S.lemma("symmetric.lemma4", seq((r1 * s1) * (r1 * s1), (r2 * s2) * (r2 * s2)))
            S.lemma("symmetric.law_of_sines", seq(r1 * s1, r2 * s2))
        S.ensure("symmetric(reals)", seq(o1.value, o2.value))


@contract(P, functions=[F], vc_timeout_s=60, budget_s=400, note="delta-mode: every arithmetic result is exact*(1+d), |d|<=2^-53 (IEEE-754 standard model)")
def acos_domain_in_floating_point(S):
    """The acos arguments stay inside [-1,1] (and no division by zero happens) even when every operation rounds."""
    S.patch(symx, "DELTA_MODE", True)
    x1, y1, x2, y2, r1, r2 = _inputs(S)
    out = S.call(fr.circle_circle_intersection_area, Point(x1, y1), r1, Point(x2, y2), r2)
    S.ensure("total.never_raises(delta-mode)", out.ok, note="a refutation here is not yet a float counterexample: see the float leg")


@contract(P, canary=True)
def canary_always_zero(S):
    x1, y1, x2, y2, r1, r2 = _inputs(S)
    out = S.call(fr.circle_circle_intersection_area, Point(x1, y1), r1, Point(x2, y2), r2)
    S.ensure("canary.always_zero", seq(out.value, 0) if out.ok else False)


# ---------------------------------------------------------------------------------------------------------
# bounded float leg: boundary-focused doubles against a 40-digit lens-area oracle

def _oracle(c1, r1, c2, r2):
    import mpmath as mp
    mp.mp.dps = 40
    dx, dy = mp.mpf(c1[0]) - mp.mpf(c2[0]), mp.mpf(c1[1]) - mp.mpf(c2[1])
    d = mp.sqrt(dx * dx + dy * dy)
    R1, R2 = mp.mpf(r1), mp.mpf(r2)
    if d >= R1 + R2:
        return mp.mpf(0)
    if d <= abs(R1 - R2):
        return mp.pi * min(R1, R2) ** 2
    a = mp.acos((R1 ** 2 + d ** 2 - R2 ** 2) / (2 * R1 * d))
    b = mp.acos((R2 ** 2 + d ** 2 - R1 ** 2) / (2 * R2 * d))
    return R1 ** 2 * (a - mp.sin(2 * a) / 2) + R2 ** 2 * (b - mp.sin(2 * b) / 2)


def _ulps(x, k):
    for _ in range(abs(k)):
        x = math.nextafter(x, math.inf if k > 0 else -math.inf)
    return x


def _gen(rng, n):
    """boundary-focused inputs (c1, r1, c2, r2)"""
    decimals = [0.1 * k for k in range(1, 40)]
    for i in range(n):
        kind = i % 8
        if kind in (0, 1):
            r1, r2 = rng.choice(decimals), rng.choice(decimals)
        else:
            r1, r2 = 10 ** rng.uniform(-3, 3), 10 ** rng.uniform(-3, 3)
        if kind == 2:
            r2 = r1
        c1 = (rng.uniform(-100, 100), rng.uniform(-100, 100)) if kind % 2 else (0.0, 0.0)
        if kind == 7 and i % 3 == 0:
            # centres far from the origin relative to the radii (added after seed C17-5: a distance computed from |c1|^2 + |c2|^2 - 2 c1.c2
            # loses everything to cancellation there); powers of two keep c1 + offsets exact
            far = rng.choice([2.0 ** 20, 2.0 ** 23, 2.0 ** 26])
            c1 = (far * rng.choice([-1, 1]), far * rng.choice([-1, 0, 1]))
            r1, r2 = rng.choice(decimals), rng.choice(decimals)
        ang = rng.choice([0.0, math.pi / 2, math.pi, rng.uniform(0, 2 * math.pi)])
        mode = rng.randrange(6)
        if mode == 0:
            d = _ulps(r1 + r2, rng.randint(-4, 4))                 # external tangency +- a few ulp
        elif mode == 1:
            d = _ulps(abs(r1 - r2), rng.randint(-4, 4)) if r1 != r2 else 0.0   # internal tangency / concentric
        elif mode == 2:
            d = rng.uniform(0, 1.2 * (r1 + r2))                     # anywhere
        elif mode == 3:
            d = abs(r1 - r2) + rng.uniform(0, 1) * (math.sqrt(abs(r1 * r1 - r2 * r2)) - abs(r1 - r2))  # centre beyond the chord
        elif mode == 4:
            d = (r1 + r2) * (1 - 10 ** rng.uniform(-16, -1))       # just inside external tangency
        else:
            d = abs(r1 - r2) * (1 + 10 ** rng.uniform(-16, -1)) + (1e-300 if r1 == r2 else 0)  # just outside internal tangency
        d = max(d, 0.0)
        if ang == 0.0:
            c2 = (c1[0] + d, c1[1])
        elif ang == math.pi / 2:
            c2 = (c1[0], c1[1] + d)
        elif ang == math.pi:
            c2 = (c1[0] - d, c1[1])
        else:
            c2 = (c1[0] + d * math.cos(ang), c1[1] + d * math.sin(ang))
        yield c1, r1, c2, r2


@contract(P, kind="enum", functions=[F], scope="bounded: boundary-focused doubles", params=[dict(chunk=i) for i in range(16)])
def float_leg(chunk, n_per_chunk=None, replay=None):
    tier = core.os.environ.get("VERIF_TIER", "quick")
    n = n_per_chunk or (1500 if tier != "thorough" else 60000)
    rng = random.Random(1000 * int(core.os.environ.get("VERIF_SEED", "0") or 0) + chunk)
    f = fr.circle_circle_intersection_area
    failures, nontrivial, seen, samples = [], 0, set(), []
    items = [tuple(replay["input"])] if replay else _gen(rng, n)
    evals = 0
    for c1, r1, c2, r2 in items:
        c1, c2 = tuple(c1), tuple(c2)
        evals += 1
        key = (c1, r1, c2, r2)
        scale = max(r1, r2) ** 2
        try:
            a = f(Point(*c1), r1, Point(*c2), r2)
            b = f(Point(*c2), r2, Point(*c1), r1)
        except Exception as e:  # noqa
            failures.append(dict(clause="float.never_fails", input=[c1, r1, c2, r2], observed=f"{type(e).__name__}: {e}"))
            continue
        ex = _oracle(c1, r1, c2, r2)
        exf = float(ex)
        smaller = math.pi * min(r1, r2) ** 2
        if 0 < exf < smaller and key not in seen:
            seen.add(key)
            nontrivial += 1
        if len(samples) < 3:
            samples.append(dict(c1=c1, r1=r1, c2=c2, r2=r2, result=a, oracle=exf))
        if not (a == a and abs(a) != math.inf):
            failures.append(dict(clause="float.finite", input=[c1, r1, c2, r2], observed=a))
        elif abs(a - b) > 1e-6 * scale:
            failures.append(dict(clause="float.symmetric", input=[c1, r1, c2, r2], observed=[a, b]))
        elif a < -1e-6 * scale or a > smaller + 1e-6 * scale:
            failures.append(dict(clause="float.between_zero_and_smaller_disc", input=[c1, r1, c2, r2], observed=a, bound=smaller))
        elif abs(a - exf) > 1e-5 * scale:
            failures.append(dict(clause="float.accurate_to_1e-5_of_larger_radius_squared", input=[c1, r1, c2, r2], observed=a, expected=exf))
    return dict(evaluations=evals, distinct_nontrivial=nontrivial, exhaustive=False, failures=failures[:5],
                rule="inputs: decimal (0.1 k) and log-uniform radii, centre distance within +-4 ulp of r1+r2 and |r1-r2|, "
                     "just inside/outside tangency (1e-16..1e-1 relative), centre beyond the chord, equal and concentric "
                     "discs, axis-aligned and oblique offsets; non-trivial = distinct inputs whose exact lens area is "
                     "strictly between 0 and the smaller disc; oracle: 40-digit mpmath lens area; tolerance 1e-5*max(r)^2 "
                     "(accuracy, as the property states), 1e-6*max(r)^2 (symmetry and bounds in doubles: rounding noise near tangency is ~1e-8*max(r)^2; exact symmetry is the symbolic obligation)",
                samples=samples, bound=f"{n} inputs per chunk")
