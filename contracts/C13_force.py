"""C13 -- force-directed relocation: fixed modules stay, centres stay in the die (tools/force/fruchterman_reingold.py)."""
import ast
import copy
import inspect
import os
import random

from vf import core, symx, loopcut
from vf.core import contract
from .netlist_common import *  # noqa
from .C11_die_refine import bare_die
import tools.force.fruchterman_reingold as fr

core.shim(fr)
P = "C13"
F = "tools.force.fruchterman_reingold."


def make_die(S, kinds, with_net=True):
    """die W x H with a netlist of modules of the given kinds; every centre inside the die"""
    set_eps(S)
    W, H = S.real("W", pos=True), S.real("H", pos=True)
    mods = {}
    for i, k in enumerate(kinds):
        nm = f"M{i}"
        if k == "soft":
            mods[nm] = soft_module(S, nm.lower(), "scalar", True)
        elif k == "terminal":
            mods[nm] = terminal_module(S, nm.lower(), True, False)
        elif k == "fixed_terminal":
            mods[nm] = terminal_module(S, nm.lower(), True, True)
        elif k == "fixed":
            mods[nm] = hard_module(S, nm.lower(), 1, True)
    tree = {"Modules": mods}
    if with_net and len(kinds) >= 2:
        tree["Nets"] = [[f"M{i}" for i in range(len(kinds))] + [S.real("wt", pos=True)]]
    n = Netlist(tree)
    for m in n.modules:
        S.assume(sand(m.center.x >= 0, m.center.x <= W, m.center.y >= 0, m.center.y <= H))
    d = bare_die(S, W, H, [], [], [], [])
    d._netlist = n
    return d, n, W, H


def snapshot(n):
    return [(m, m.center.x, m.center.y, m.is_fixed, m.area(), list(m.rectangles), dict(m.area_regions)) for m in n.modules], list(n.edges), \
        [(e, list(e.modules), e.weight) for e in n.edges]


def post_layout(S, pre, d, n, W, H, snap, out):
    S.ensure(pre + ".no_raise", out.ok)
    if not out.ok:
        return
    mods, edges, esnap = snap
    S.ensure(pre + ".returns_the_same_die", out.value[0] is d and d.netlist is n)
    S.ensure(pre + ".every_centre_inside_the_die",
             sand(*[sand(m.center.x >= 0, m.center.x <= W, m.center.y >= 0, m.center.y <= H) for m in n.modules]))
    S.ensure(pre + ".fixed_modules_have_not_moved",
             sand(*[sand(seq(m.center.x, x), seq(m.center.y, y)) for (m, x, y, fx, a, rs, ar) in mods if fx]))
    S.ensure(pre + ".nothing_but_centres_changed",
             len(n.modules) == len(mods) and all(a is b[0] for a, b in zip(n.modules, mods)) and
             all(m.is_fixed == fx and len(m.rectangles) == len(rs) and all(p is q for p, q in zip(m.rectangles, rs)) and
                 list(m.area_regions) == list(ar) for (m, x, y, fx, a, rs, ar) in mods) and
             sand(*[seq(m.area(), a) for (m, x, y, fx, a, rs, ar) in mods]) and
             len(n.edges) == len(edges) and all(p is q for p, q in zip(n.edges, edges)) and
             all(list(e.modules) == ms and e.weight is wt for (e, ms, wt) in esnap))


KINDS = [("soft", "fixed"), ("soft", "soft"), ("soft", "fixed_terminal"), ("fixed", "terminal"), ("fixed", "fixed_terminal")]


@contract(P, functions=[F + "fruchterman_reingold_layout"], params=[dict(kinds=list(k)) for k in KINDS], budget_s=900, exact_feas_ms=0, leak_ok=True,
          scope="inductive step: ONE arbitrary iteration from an arbitrary state (loop cut: temperature havocked); 2 modules, one net")
def one_arbitrary_iteration(S, kinds):
    """The iteration loop is cut: the real function, with `t = __havoc__('t', t)` inserted before its loop, is run for
    one iteration from arbitrary centres in the die and an arbitrary temperature t > 0.  The positions are the only
    carried state (they are re-derived from the centres), so this is the inductive step for any number of iterations."""
    d, n, W, H = make_die(S, kinds)
    kappa = S.real("kappa", pos=True)

    def havoc(name, old):
        if S.mode != "sym":
            return old
        v = S.fresh_real("t_any")
        S.assume(v > 0)
        return v
    cut, info = loopcut.havoc_before_loop(fr.fruchterman_reingold_layout, lambda target, it: "max_iter" in it, ["t"], havoc)
    S.cover("loop-cut: " + str(info["inserted"]))
    snap = snapshot(n)
    out = S.call(cut, d, kappa, False, None, 1)
    post_layout(S, "iteration", d, n, W, H, snap, out)


@contract(P, functions=[F + "fruchterman_reingold_layout"], params=[dict(kinds=list(k), iters=i) for k in KINDS[:2] for i in (0, 1)] +
          [dict(kinds=["soft", "fixed"], iters=2)], budget_s=1200, exact_feas_ms=0, shards=4, shard_depth=4,
          scope="bounded: 0, 1, 2 iterations of the unmodified function (cross-check of the loop cut); 2 modules")
def unrolled_iterations(S, kinds, iters):
    d, n, W, H = make_die(S, kinds)
    kappa = S.real("kappa", pos=True)
    snap = snapshot(n)
    out = S.call(fr.fruchterman_reingold_layout, d, kappa, False, None, iters)
    post_layout(S, f"unrolled", d, n, W, H, snap, out)


@contract(P, functions=[F + "fruchterman_reingold_layout"], params=[dict(k=k) for k in (1, 3)])
def layout_rejects_die_without_netlist(S, k):
    d = bare_die(S, S.real("W", pos=True), S.real("H", pos=True), [], [], [], [])
    out = S.call(fr.fruchterman_reingold_layout, d, 1.0, False, None, k)
    S.ensure("layout.die_without_netlist_rejected", out.raised(AssertionError))


@contract(P, functions=[F + "total_intersection_area"], params=[dict(kinds=list(k)) for k in (("soft", "soft"), ("soft", "fixed"), ("soft", "fixed", "soft"))])
def total_intersection_area_is_the_fold(S, kinds):
    """= sum over ordered pairs of distinct modules of the disc overlap (C17's function, here uninterpreted)"""
    import z3
    d, n, W, H = make_die(S, kinds, with_net=False)
    f = z3.Function("disc_overlap", *([z3.RealSort()] * 6 + [z3.RealSort()]))
    calls = []

    def stub(c1, r1, c2, r2):
        t = f(*[symx.to_real(symx.term(v)) for v in (c1.x, c1.y, r1, c2.x, c2.y, r2)])
        calls.append(t)
        return symx.SymReal(t)
    if S.mode == "sym":
        S.patch(fr, "circle_circle_intersection_area", stub)
    out = S.call(fr.total_intersection_area, d)
    S.ensure("total_intersection_area.no_raise", out.ok)
    if not out.ok or S.mode != "sym":
        return
    exp = 0
    k = len(n.modules)
    for i in range(k):
        for j in range(k):
            if i != j:
                a, b = n.modules[i], n.modules[j]
                ra, rb = S.sqrt(a.area() / fr.math.pi), S.sqrt(b.area() / fr.math.pi)
                exp = exp + symx.SymReal(f(*[symx.to_real(symx.term(v)) for v in (a.center.x, a.center.y, ra, b.center.x, b.center.y, rb)]))
    S.ensure("total_intersection_area.sums_every_ordered_pair_of_distinct_modules", sand(seq(out.value, exp), len(calls) == k * (k - 1)))


class _TokenNetlist:
    def __init__(self, wl):
        self.wire_length = wl


class _TokenDie:
    def __init__(self, kappa, wl):
        self.kappa, self.netlist = kappa, _TokenNetlist(wl)


@contract(P, functions=[F + "force_algorithm"], budget_s=900, shards=8, shard_depth=4,
          scope="the 12 spring constants with symbolic costs (callees replaced by recorders)")
def force_algorithm_returns_cheapest(S):
    """force_algorithm against the contracts of its callees: the final layout is computed with the spring constant whose
    cost (overlap + wire length / 2) is smallest among those tried, the first one in case of ties, on the caller's die."""
    kappas = [i / 10 for i in range(4, 16)]
    ov = {k: S.real(f"ov{i}", nonneg=True) for i, k in enumerate(kappas)}
    wl = {k: S.real(f"wl{i}", nonneg=True) for i, k in enumerate(kappas)}
    calls = []
    die = object()

    def layout(d, kappa=1.0, verbose=False, visualize=None, max_iter=100):
        calls.append((d, kappa, visualize, max_iter))
        return _TokenDie(kappa, wl.get(kappa)), []
    S.patch(fr, "fruchterman_reingold_layout", layout)
    S.patch(fr, "total_intersection_area", lambda d: ov[d.kappa])
    S.patch(fr, "deepcopy", lambda x: ("copy", x))
    out = S.call(fr.force_algorithm, die, False, "viz", 7)
    S.ensure("force_algorithm.no_raise", out.ok)
    if not out.ok:
        return
    S.ensure("force_algorithm.tries_the_twelve_constants_on_copies_then_runs_on_the_die",
             len(calls) == 13 and [c[1] for c in calls[:12]] == kappas and all(c[0] == ("copy", die) and c[2] is None and c[3] == 7 for c in calls[:12])
             and calls[12][0] is die and calls[12][2] == "viz" and calls[12][3] == 7)
    best = calls[12][1]
    cost = {k: ov[k] + wl[k] / 2 for k in kappas}
    S.ensure("force_algorithm.final_layout_uses_a_tried_constant", best in kappas)
    if best in kappas:
        bi = kappas.index(best)
        S.ensure("force_algorithm.final_constant_has_the_smallest_cost_first_minimum_wins",
                 sand(*[cost[best] <= cost[k] for k in kappas], *[cost[best] < cost[k] for k in kappas[:bi]]))


@contract(P, kind="enum", functions=[F + "fruchterman_reingold_layout", F + "force_algorithm"])
def determinism_static(replay=None):
    """no use of randomness, time or hashing order: the AST of the module's layout functions mentions none of them"""
    src = inspect.getsource(fr)
    tree = ast.parse(src)
    bad = []
    for node in ast.walk(tree):
        if isinstance(node, (ast.Import, ast.ImportFrom)):
            names = [a.name for a in node.names] + ([node.module] if isinstance(node, ast.ImportFrom) and node.module else [])
            bad += [x for x in names if x and x.split(".")[0] in ("random", "time", "secrets", "uuid", "numpy")]
        if isinstance(node, ast.Name) and node.id in ("random", "urandom", "time", "set", "id", "hash"):
            bad.append(node.id)
    return dict(evaluations=1, distinct_nontrivial=2, exhaustive=True, failures=[dict(clause="layout_uses_no_source_of_nondeterminism", found=sorted(set(bad)))] if bad else [],
                rule="AST scan of tools/force/fruchterman_reingold.py for random / time / hash-order dependent constructs", samples=["AST scan"])


# ---- bounded float leg: the unmodified functions on concrete designs ------------------------------------------------------

def _lens(c1, r1, c2, r2):
    """overlap area of two discs, written for this check from the textbook formula (independent of the module under test)"""
    import math
    d = math.hypot(c1[0] - c2[0], c1[1] - c2[1])
    if d >= r1 + r2:
        return 0.0
    if d <= abs(r1 - r2):
        return math.pi * min(r1, r2) ** 2
    a1 = math.acos(max(-1.0, min(1.0, (d * d + r1 * r1 - r2 * r2) / (2 * d * r1))))
    a2 = math.acos(max(-1.0, min(1.0, (d * d + r2 * r2 - r1 * r1) / (2 * d * r2))))
    return r1 * r1 * (a1 - math.sin(2 * a1) / 2) + r2 * r2 * (a2 - math.sin(2 * a2) / 2)


def _own_cost(netlist):
    """overlap over ordered pairs of distinct modules + half the wire length, from the definitions (areas and centres read from the modules)"""
    import math
    ms = netlist.modules
    tot = 0.0
    for i, a in enumerate(ms):
        for j, b in enumerate(ms):
            if i != j:
                tot += _lens((a.center.x, a.center.y), math.sqrt(a.area() / math.pi), (b.center.x, b.center.y), math.sqrt(b.area() / math.pi))
    wl = 0.0
    for e in netlist.edges:
        cs = [(m.center.x, m.center.y) for m in e.modules]
        mx, my = sum(c[0] for c in cs) / len(cs), sum(c[1] for c in cs) / len(cs)
        wl += e.weight * sum(math.hypot(c[0] - mx, c[1] - my) for c in cs)
    return tot + wl / 2


def _design(rng, n_mod):
    # a millimetre-sized die written in metres and a large one (after the open seed r8-C13-1: costs rounded to six decimals)
    W, H = rng.choice([(10.0, 7.0), (8.0, 2.0), (0.3, 0.7), (120.5, 33.1), (0.002, 0.0016), (0.002, 0.0016), (3000.0, 1800.0)])
    mods, names = {}, []
    for i in range(n_mod):
        nm = f"M{i}"
        kind = rng.choice(["soft", "soft", "fixed", "terminal", "fterm"])
        cx, cy = round(rng.uniform(0, W), 1) if W > 1 else rng.uniform(0, W), round(rng.uniform(0, H), 1) if H > 1 else rng.uniform(0, H)
        cx, cy = min(max(cx, 0.0), W), min(max(cy, 0.0), H)
        if rng.random() < 0.15:
            cx = rng.choice([0.0, W])
        if kind == "soft":
            a_ = rng.uniform(0.01, 0.2) * W * H
            mods[nm] = {"area": round(a_, 3) if a_ > 0.01 else a_, "center": [cx, cy]}
        elif kind == "fixed":
            w, h = 0.1 * W, 0.1 * H
            cx, cy = min(max(cx, w / 2), W - w / 2), min(max(cy, h / 2), H - h / 2)
            mods[nm] = {"fixed": True, "rectangles": [[cx, cy, w, h]]}
        elif kind == "terminal":
            mods[nm] = {"terminal": True, "center": [cx, cy]}
        else:
            mods[nm] = {"terminal": True, "fixed": True, "center": [cx, cy]}
        names.append(nm)
    if rng.random() < 0.2 and n_mod >= 2:
        mods[names[1]]["center"] = list(mods[names[0]].get("center", [W / 2, H / 2])) if "center" in mods[names[1]] else None
        if mods[names[1]].get("center") is None:
            mods[names[1]].pop("center", None)
    nets = []
    for _ in range(rng.randint(1, 3)):
        e = rng.sample(names, rng.randint(2, min(4, n_mod)))
        if rng.random() < 0.5:
            e.append(rng.choice([2, 0.5, 8, 50]) if W > 0.01 else rng.choice([1e-4, 3e-4, 2e-5]))
        nets.append(e)
    if rng.random() < 0.4:      # a bus: the same net several times (equal wire lengths; added after seed C13-7, which summed a SET of lengths)
        nets += [list(nets[0]) for _ in range(rng.randint(1, 3))]
    return W, H, {"Modules": mods, "Nets": nets}


@contract(P, kind="enum", functions=[F + "fruchterman_reingold_layout", F + "force_algorithm", F + "total_intersection_area"],
          scope="bounded: random concrete designs in doubles, max_iter in {0,1,5,40}", params=[dict(chunk=i) for i in range(8)])
def float_leg(chunk, replay=None):
    import math
    from frame.die.die import Die
    write_yaml = lambda d: __import__("json").dumps(d, indent=1)  # noqa: E731  input documents are written WITHOUT the library (JSON is a subset of YAML): the harness must not depend on the code under test
    tier = os.environ.get("VERIF_TIER", "quick")
    rng = random.Random(777 + chunk + 100 * int(os.environ.get("VERIF_SEED", "0") or 0))
    n_des = 25 if tier != "thorough" else 400
    failures, evals, nontriv, samples = [], 0, 0, []
    for it in range(n_des):
        W, H, doc = replay["design"] if replay else _design(rng, rng.randint(2, 5))
        Rectangle.undefine_epsilon()
        try:
            n = Netlist(write_yaml(doc))
            die = Die(f"{W}x{H}", n)
        except AssertionError:
            continue
        before = [(m.name, m.center.x, m.center.y, m.is_fixed, m.area(), [(r.center.x, r.center.y, r.shape.w, r.shape.h) for r in m.rectangles]) for m in n.modules]
        nets_before = [([m.name for m in e.modules], e.weight) for e in n.edges]
        for max_iter in (0, 1, 5, 40):
            evals += 1
            nontriv += 1
            d2 = copy.deepcopy(die)
            try:
                if max_iter == 40 and it % 5 == 0:
                    if it % 10 == 0:
                        # history in the same process (added after seed C13-5): a sibling design with the same module names and other areas
                        sib = copy.deepcopy(doc)
                        for info_ in sib["Modules"].values():
                            if "area" in info_:
                                info_["area"] = info_["area"] * 0.01
                        try:
                            fr.force_algorithm(Die(f"{W}x{H}", Netlist(write_yaml(sib))), False, None, 3)
                        except Exception:  # noqa
                            pass
                    res, _ = fr.force_algorithm(d2, False, None, 10)
                    # the returned layout is the cheapest among the spring constants tried (costs recomputed from the definitions, not with
                    # the module's own overlap function)
                    costs = []
                    for k in [i / 10 for i in range(4, 16)]:
                        dd, _ = fr.fruchterman_reingold_layout(copy.deepcopy(die), k, False, None, 10)
                        costs.append(_own_cost(dd.netlist))
                    got = _own_cost(res.netlist)
                    if got > min(costs) + 1e-9 * max(1.0, abs(min(costs))):
                        failures.append(dict(clause="float.returned_layout_is_the_cheapest_tried", design=[W, H, doc], cost=got, best=min(costs)))
                    res2, _ = fr.force_algorithm(copy.deepcopy(die), False, None, 10)
                    if [(m.center.x, m.center.y) for m in res.netlist.modules] != [(m.center.x, m.center.y) for m in res2.netlist.modules]:
                        failures.append(dict(clause="float.deterministic", design=[W, H, doc]))
                else:
                    # now and then an extreme spring constant (added after seed C13-6: a clamp that lets NaN through)
                    kap = rng.choice([0.4, 1.0, 1.5]) if rng.random() < 0.9 else rng.choice([5e-324, 1e-308, 1e-30, 1e30, 1e300])
                    try:
                        res, _ = fr.fruchterman_reingold_layout(d2, kap, False, None, max_iter)
                    except (OverflowError, ZeroDivisionError):
                        if kap in (0.4, 1.0, 1.5):
                            raise
                        continue        # an extreme constant may make the arithmetic overflow: the function then does not return
            except Exception as e:  # noqa
                failures.append(dict(clause="float.never_fails", design=[W, H, doc], max_iter=max_iter, observed=f"{type(e).__name__}: {e}"))
                continue
            after = res.netlist.modules
            for (nm, x, y, fx, a, rs), m in zip(before, after):
                if not (math.isfinite(m.center.x) and math.isfinite(m.center.y) and 0 <= m.center.x <= W and 0 <= m.center.y <= H):
                    failures.append(dict(clause="float.every_centre_is_a_finite_point_inside_the_die", design=[W, H, doc], max_iter=max_iter, module=nm,
                                         centre=[m.center.x, m.center.y]))
                if fx and (m.center.x != x or m.center.y != y):
                    failures.append(dict(clause="float.fixed_modules_have_not_moved", design=[W, H, doc], max_iter=max_iter, module=nm,
                                         before=[x, y], after=[m.center.x, m.center.y]))
                if m.name != nm or m.area() != a or [(r.center.x, r.center.y, r.shape.w, r.shape.h) for r in m.rectangles] != rs:
                    failures.append(dict(clause="float.nothing_but_centres_changed", design=[W, H, doc], module=nm))
            if [([m.name for m in e.modules], e.weight) for e in res.netlist.edges] != nets_before:
                failures.append(dict(clause="float.nets_unchanged", design=[W, H, doc]))
        if len(samples) < 1:
            samples.append(dict(W=W, H=H, doc=doc))
        if len(failures) >= 6 or replay:
            break
    Rectangle.undefine_epsilon()
    return dict(evaluations=evals, distinct_nontrivial=nontriv, exhaustive=False, failures=failures[:6],
                rule="random designs (2-5 modules: soft, fixed blocks, movable and fixed terminals; decimal centres, centres on the border, "
                     "coincident centres; nets of 2-4 pins with weights up to 50; wide and tiny dies) run through the unmodified functions in "
                     "doubles; fixed centres must be bit-identical, all centres finite and inside the die, nothing else changed; "
                     "force_algorithm's result recomputed independently; non-trivial = (design, iteration count) runs",
                samples=samples, bound=f"{n_des} designs per chunk")


@contract(P, canary=True, exact_feas_ms=0, params=[dict(kinds=["soft", "soft"])])
def canary_centres_end_at_the_die_centre(S, kinds):
    d, n, W, H = make_die(S, kinds)
    out = S.call(fr.fruchterman_reingold_layout, d, 1.0, False, None, 0)
    S.ensure("canary.centre_is_die_centre", seq(n.modules[0].center.x, W / 2) if out.ok else False)
