"""C11 -- die refinement keeps the tiling, reaches the count and bounds the aspect ratio
(frame/geometry/geometry.py: split_rectangles, Rectangle.aspect_ratio/split; frame/die/die.py: split_refinable_regions,
initial_grid, floorplanning_rectangles)."""
from vf.core import contract
from vf.specs import box, box_inside, box_eq, interiors_disjoint, box_area
from .common import *  # noqa
import frame.die.die as diemod
from frame.die.die import Die

core.shim(diemod)
P = "C11"
G = "frame.geometry.geometry."
D = "frame.die.die.Die."


def ratio(w, h):
    return smax(w / h, h / w)


@contract(P, functions=[G + "Rectangle.aspect_ratio"])
def aspect_ratio(S):
    r = mk_rect(S, "r")
    out = S.call(lambda: r.aspect_ratio)
    S.ensure("aspect_ratio.is_max_of_w/h_and_h/w", seq(out.value, ratio(r.shape.w, r.shape.h)) if out.ok else False)
    S.ensure("aspect_ratio.at_least_one", out.value >= 1 if out.ok else False)


@contract(P, functions=[G + "Rectangle.split", G + "Rectangle.aspect_ratio"])
def halving_step_lemmas(S):
    """The inductive steps of split_rectangles, on the real split()/aspect_ratio of an arbitrary rectangle:
    a piece has ratio max(rho/2, 2/rho); phase 1 (rho > limit > sqrt 2) strictly decreases the ratio and reaches the
    limit once rho <= 2*limit; a compliant rectangle with rho >= 2/limit has compliant halves."""
    r = mk_rect(S, "r", S.choice("reg", ["_", "A"]))
    lim = S.real("limit")
    S.assume(lim > 1.415)
    rho = S.call(lambda: r.aspect_ratio).value
    out = S.call(r.split)
    S.ensure("split.no_raise", out.ok)
    if not out.ok:
        return
    for i, p in enumerate(out.value):
        pr = S.call(lambda: p.aspect_ratio).value
        S.ensure("halving.piece_ratio_is_max(rho/2,2/rho)", seq(pr, smax(rho / 2, 2 / rho)))
        S.ensure("halving.phase1_ratio_strictly_decreases", simplies(rho > lim, pr < rho))
        S.ensure("halving.phase1_reaches_limit_when_rho<=2*limit", simplies(sand(rho > lim, rho <= 2 * lim), pr <= lim))
        S.ensure("halving.compliant_parent_with_rho>=2/limit_has_compliant_halves",
                 simplies(sand(rho <= lim, rho * lim >= 2), pr <= lim))
        S.ensure("halving.limit>=2_keeps_compliance", simplies(sand(rho <= lim, lim >= 2), pr <= lim))
        S.ensure("halving.piece_inside_with_tag", sand(box_inside(box(p), box(r)), attrs_eq(p, r)))


def _post_split(S, pre, originals, lim, n, res, check_ratio=True):
    S.ensure(pre + ".at_least_n_regions", len(res) >= n)
    S.ensure(pre + ".all_are_rectangles", all(is_rect(x) for x in res))
    inside_some, ratios_ok = [], []
    per_orig = [0 for _ in originals]
    for p in res:
        B = box(p)
        a = p.shape.w * p.shape.h
        ins = []
        for k, o in enumerate(originals):
            c = sand(box_inside(B, box(o)), attrs_eq(p, o))
            ins.append(c)
            per_orig[k] = per_orig[k] + sif(box_inside(B, box(o)), a, 0)
        inside_some.append(sor(*ins))
        ratios_ok.append(ratio(p.shape.w, p.shape.h) <= lim)
    S.ensure(pre + ".each_region_inside_its_original_with_its_tag", sand(*inside_some))
    S.ensure(pre + ".regions_pairwise_disjoint",
             sand(*[interiors_disjoint(box(res[i]), box(res[j])) for i in range(len(res)) for j in range(i + 1, len(res))])
             if len(res) > 1 else True)
    S.ensure(pre + ".each_original_exactly_covered",
             sand(*[seq(per_orig[k], o.shape.w * o.shape.h) for k, o in enumerate(originals)]))
    if check_ratio:
        S.ensure(pre + ".every_region_within_aspect_ratio_limit", sand(*ratios_ok))


@contract(P, functions=[G + "split_rectangles"], budget_s=900, shards=8, shard_depth=4,
          scope="bounded: 1 rectangle, n <= 4, at most two ratio-driven halvings (rho <= 4*limit); all values symbolic",
          params=[dict(n=n) for n in (1, 2, 3, 4)])
def split_rectangles_one(S, n):
    r = mk_rect(S, "r", S.choice("reg", ["_", "A"]))
    lim = S.real("limit")
    S.assume(sand(lim > 1.415, lim <= 3))
    S.assume(ratio(r.shape.w, r.shape.h) <= 4 * lim)
    out = S.call(geo.split_rectangles, [r], lim, n)
    S.ensure("split_rectangles.no_raise", out.ok)
    if out.ok:
        _post_split(S, "split_rectangles", [r], lim, n, out.value)


@contract(P, tier="thorough", functions=[G + "split_rectangles"], budget_s=3000, shards=16, shard_depth=5,
          scope="bounded: 2 rectangles, n <= 3, no ratio-driven halving needed beyond one; all values symbolic",
          params=[dict(n=n) for n in (2, 3)])
def split_rectangles_two(S, n):
    a, b = mk_rect(S, "a"), mk_rect(S, "b", "A")
    lim = S.real("limit")
    S.assume(sand(lim > 1.415, lim <= 3))
    S.assume(sand(ratio(a.shape.w, a.shape.h) <= 2 * lim, ratio(b.shape.w, b.shape.h) <= lim))
    S.assume(interiors_disjoint(box(a), box(b)))
    out = S.call(geo.split_rectangles, [a, b], lim, n)
    S.ensure("split_rectangles2.no_raise", out.ok)
    if out.ok:
        _post_split(S, "split_rectangles2", [a, b], lim, n, out.value)


@contract(P, functions=[G + "split_rectangles"])
def split_rectangles_rejects(S):
    r = mk_rect(S, "r")
    lim = S.real("limit")
    n = S.choice("n", [0, -1, 1])
    bad_lim = S.bool("bad_limit")
    S.assume(sif(bad_lim, lim <= 1.415, lim > 1.415))
    S.assume(ratio(r.shape.w, r.shape.h) <= lim)
    out = S.call(geo.split_rectangles, [r], lim, n)
    S.ensure("split_rectangles.rejects_n<=0_or_limit<=sqrt2", siff(out.raised(AssertionError), n <= 0 or bad_lim))


def bare_die(S, W, H, spec, ground, block, fixed):
    """A Die with the given region lists.  The object is created by the REAL constructor (concrete 1x1 die) and then
    resized / refilled through its public accessors (bounding_box setters, the region lists returned by the properties),
    so that whatever the constructor initialises exists."""
    saved = (Rectangle._distance_epsilon, Rectangle._area_epsilon)
    Rectangle._distance_epsilon, Rectangle._area_epsilon = 1e-9, 1e-9
    try:
        d = Die("1x1")
    finally:
        Rectangle._distance_epsilon, Rectangle._area_epsilon = saved
    d.bounding_box.center, d.bounding_box.shape = Point(W / 2, H / 2), Shape(W, H)
    d._epsilon = smin(W, H) * 10e-12
    d.specialized_regions[:], d.ground_regions[:], d.blockages[:], d.fixed_regions[:] = list(spec), list(ground), list(block), list(fixed)
    return d


@contract(P, functions=[D + "split_refinable_regions", D + "floorplanning_rectangles"], budget_s=900, shards=8, shard_depth=4,
          scope="bounded: one ground + one specialised region, a blockage and a fixed region, n <= 3",
          params=[dict(n=n) for n in (1, 2, 3)])
def die_split_refinable_regions(S, n):
    g, s = mk_rect(S, "g"), mk_rect(S, "s", "A")
    b, f = mk_rect(S, "b", "#"), mk_rect(S, "f", "_", True)
    lim = S.real("limit")
    S.assume(sand(lim > 1.415, lim <= 3, ratio(g.shape.w, g.shape.h) <= 2 * lim, ratio(s.shape.w, s.shape.h) <= lim))
    S.assume(interiors_disjoint(box(g), box(s)))
    d = bare_die(S, S.real("W", pos=True), S.real("H", pos=True), [s], [g], [b], [f])
    snap = [(x, x.center.x, x.center.y, x.shape.w, x.shape.h, x.region, x.fixed) for x in (b, f)]
    out = S.call(d.split_refinable_regions, lim, n)
    S.ensure("split_refinable_regions.no_raise", out.ok)
    if not out.ok:
        return
    o2 = S.call(d.floorplanning_rectangles)
    S.ensure("floorplanning_rectangles.no_raise", o2.ok)
    if not o2.ok:
        return
    refinable, fixed = o2.value
    _post_split(S, "die_split", [g, s], lim, n, refinable)
    S.ensure("die_split.partition_by_tag", all(x.region == "_" for x in d.ground_regions) and
             all(x.region != "_" for x in d.specialized_regions) and
             sorted(map(id, refinable)) == sorted(map(id, d.specialized_regions + d.ground_regions)))
    S.ensure("die_split.blockages_and_fixed_regions_untouched",
             sand(len(d.blockages) == 1 and d.blockages[0] is b and len(fixed) == 1 and fixed[0] is f and d.fixed_regions[0] is f,
                  *[sand(seq(x.center.x, cx), seq(x.center.y, cy), seq(x.shape.w, w), seq(x.shape.h, h), x.region == rg, x.fixed == fx)
                    for x, cx, cy, w, h, rg, fx in snap]))


@contract(P, functions=[D + "split_refinable_regions"])
def die_split_rejects(S):
    g = mk_rect(S, "g")
    d = bare_die(S, S.real("W", pos=True), S.real("H", pos=True), [], [g], [], [])
    lim = S.real("limit")
    S.assume(lim <= 1.415)
    out = S.call(d.split_refinable_regions, lim, 1)
    S.ensure("split_refinable_regions.rejects_limit<=sqrt2", out.raised(AssertionError))
    out = S.call(d.split_refinable_regions, 2.0, 0)
    S.ensure("split_refinable_regions.rejects_n<=0", out.raised(AssertionError))


@contract(P, functions=[D + "initial_grid", G + "Rectangle.rectangle_grid"], scope="bounded: rows, cols <= 3",
          params=[dict(nr=a, nc=b) for a in (1, 2, 3) for b in (1, 2, 3)])
def die_initial_grid(S, nr, nc):
    W, H = S.real("W", pos=True), S.real("H", pos=True)
    g = Rectangle(center=Point(W / 2, H / 2), shape=Shape(W, H))
    d = bare_die(S, W, H, [], [g], [], [])
    out = S.call(d.initial_grid, nr, nc)
    S.ensure("initial_grid.no_raise", out.ok)
    if not out.ok:
        return
    refinable, fixed = d.floorplanning_rectangles()
    S.ensure("initial_grid.rows_x_cols_regions", len(refinable) == nr * nc and len(fixed) == 0)
    die_box = (0, 0, W, H)
    sx, sy = W / nc, H / nr
    conds = []
    for row in range(nr):
        for col in range(nc):
            p = refinable[row * nc + col]
            conds.append(box_eq(box(p), (col * sx, row * sy, (col + 1) * sx, (row + 1) * sy)))
            conds.append(p.region == "_" and not p.fixed)
    S.ensure("initial_grid.regions_are_the_grid_cells_of_the_die", sand(*conds))
    S.ensure("initial_grid.tiles_the_die",
             sand(seq(sum(p.shape.w * p.shape.h for p in refinable), W * H),
                  *[box_inside(box(p), die_box) for p in refinable],
                  *[interiors_disjoint(box(refinable[i]), box(refinable[j])) for i in range(len(refinable)) for j in range(i + 1, len(refinable))]))


@contract(P, functions=[D + "initial_grid"], params=[dict(case=c) for c in ("blockage", "specialized", "fixed", "two_ground", "zero")])
def die_initial_grid_rejects(S, case):
    W, H = S.real("W", pos=True), S.real("H", pos=True)
    g = Rectangle(center=Point(W / 2, H / 2), shape=Shape(W, H))
    x = mk_rect(S, "x", {"blockage": "#", "specialized": "A"}.get(case, "_"), case == "fixed")
    d = bare_die(S, W, H, [x] if case == "specialized" else [], [g, x] if case == "two_ground" else [g],
                 [x] if case == "blockage" else [], [x] if case == "fixed" else [])
    nr, nc = (0, 2) if case == "zero" else (2, 2)
    out = S.call(d.initial_grid, nr, nc)
    S.ensure("initial_grid.rejected_on_non_empty_die_or_degenerate_grid", out.raised(AssertionError))


@contract(P, canary=True)
def canary_split_gives_at_most_two(S):
    r = mk_rect(S, "r")
    S.assume(ratio(r.shape.w, r.shape.h) <= 1.5)
    out = S.call(geo.split_rectangles, [r], 3.0, 3)
    S.ensure("canary.never_more_than_two", len(out.value) <= 2 if out.ok else False)


@contract(P, functions=[D + "initial_grid", D + "split_refinable_regions", D + "floorplanning_rectangles"], budget_s=900,
          scope="bounded: operation sequences of length <= 5 on an empty die; grid <= 2x2, n <= grid cells + 1",
          params=[dict(seq=s, nr=a, nc=b) for s in ("fp,grid,fp,split,fp", "grid,split,fp", "fp,split,fp,split,fp", "split,fp")
                  for (a, b) in ((1, 2), (2, 2))])
def die_operation_sequences(S, seq, nr, nc):
    """Every operation is specified relative to the refinable regions *as they are when it is called*: after any history
    of the public operations the next refinement must cut the current regions (not some earlier list)."""
    W, H = S.real("W", pos=True), S.real("H", pos=True)
    S.assume(sand(ratio(W, H) <= 1.4))
    g = Rectangle(center=Point(W / 2, H / 2), shape=Shape(W, H))
    d = bare_die(S, W, H, [], [g], [], [])
    lim = 2.9
    current = [g]
    for op in seq.split(","):
        if op == "fp":
            o = S.call(d.floorplanning_rectangles)
            S.ensure("sequence.floorplanning_rectangles_reports_current_regions",
                     o.ok and len(o.value[0]) == len(current) and len(o.value[1]) == 0 and
                     sand(*[sor(*[box_eq(box(x), box(c)) for c in current]) for x in o.value[0]]))
        elif op == "grid":
            o = S.call(d.initial_grid, nr, nc)
            if len(current) != 1:
                S.ensure("sequence.initial_grid_only_on_unrefined_die", o.raised(AssertionError))
                continue
            S.ensure("sequence.initial_grid_no_raise", o.ok)
            if not o.ok:
                return
            new = d.floorplanning_rectangles()[0]
            _post_split(S, "sequence.grid", current, lim, nr * nc, new, check_ratio=False)
            current = list(new)
        else:
            n = len(current) + 1
            o = S.call(d.split_refinable_regions, lim, n)
            S.ensure("sequence.split_no_raise", o.ok)
            if not o.ok:
                return
            new = d.floorplanning_rectangles()[0]
            _post_split(S, "sequence.split", current, lim, n, new)
            current = list(new)


@contract(P, functions=[D + "initial_grid"], note="rows and columns symbolic: rectangle_grid replaced by its C18 contract (rectangle_grid_any_size)")
def die_initial_grid_any_size(S):
    """initial_grid(nrows, ncols) for SYMBOLIC counts, modular: the die hands its own bounding box to rectangle_grid with the
    same counts and reports exactly the list it returns as its refinable regions; what that list is, for any counts, is the
    contract of rectangle_grid proved in C18 (cells of the index pairs tile the rectangle, attributes inherited)."""
    W, H = S.real("W", pos=True), S.real("H", pos=True)
    g = Rectangle(center=Point(W / 2, H / 2), shape=Shape(W, H))
    d = bare_die(S, W, H, [], [g], [], [])
    nr, nc = S.int("nrows"), S.int("ncols")
    calls = []
    token = [mk_rect(S, "t")]

    def grid_stub(self, nrows, ncols):
        calls.append((self, nrows, ncols))
        return token
    S.patch(Rectangle, "rectangle_grid", grid_stub)
    out = S.call(d.initial_grid, nr, nc)
    S.ensure("initial_grid_any.rejects_exactly_nonpositive_counts", siff(out.raised(AssertionError), sor(nr <= 0, nc <= 0)))
    if not out.ok:
        return
    S.ensure("initial_grid_any.grids_the_die_bounding_box_with_the_requested_counts",
             len(calls) == 1 and calls[0][0] is d.bounding_box and sand(seq(calls[0][1], nr), seq(calls[0][2], nc)))
    S.ensure("initial_grid_any.refinable_regions_are_the_grid", d.floorplanning_rectangles()[0] == token and d.floorplanning_rectangles()[1] == [] and
             len(d.blockages) == 0)


# ---- split_rectangles: both worklist loops cut (one arbitrary iteration of the repository's loop body) -----------------------

from collections import deque  # noqa: E402
from vf import loopcut  # noqa: E402


def _pieces_tile(S, pre, rho, pieces, lim, compliant_required):
    """the pieces that replace rho in the work lists: inside rho with its tag, pairwise disjoint, covering rho's area"""
    R = box(rho)
    S.ensure(pre + ".pieces_inside_the_popped_rectangle_with_its_tag", sand(*[sand(box_inside(box(p), R), attrs_eq(p, rho)) for p in pieces]))
    S.ensure(pre + ".pieces_pairwise_disjoint",
             sand(*[interiors_disjoint(box(pieces[i]), box(pieces[j])) for i in range(len(pieces)) for j in range(i + 1, len(pieces))]) if len(pieces) > 1 else True)
    S.ensure(pre + ".pieces_cover_the_popped_rectangle", seq(sum(p.shape.w * p.shape.h for p in pieces), rho.shape.w * rho.shape.h))
    if compliant_required:
        S.ensure(pre + ".pieces_within_the_aspect_ratio_limit", sand(*[ratio(p.shape.w, p.shape.h) <= lim for p in pieces]))


PHASE1 = lambda cond: "q" in cond.replace("aspect_ratio", "") and "heap" not in cond      # noqa: E731   while len(q) > 0
PHASE2 = lambda cond: "heap" in cond and "n" in cond.replace("len", "")                       # noqa: E731   while len(heap) < n


@contract(P, functions=[G + "split_rectangles"], leak_ok=True, note="loop cut of the first (ratio-driven) while loop: work list havocked to one arbitrary rectangle")
def split_rectangles_phase1_iteration(S):
    """Inductive step of phase 1 for ANY number of rectangles and halvings: with the work list holding an arbitrary rectangle
    rho, one iteration of the real loop body either moves rho (compliant) to the result heap or replaces it by two halves
    that tile it and have a strictly smaller aspect ratio (termination measure); nothing else is touched."""
    rho = mk_rect(S, "rho", S.choice("reg", ["_", "A"]))
    lim = S.real("limit")
    S.assume(lim > 1.415)
    n = S.int("n", lo=1)
    state = {}

    def hv(name, old):
        if name == "q":
            return deque([rho])
        return old
    code, info = loopcut.one_iteration_of_while(geo.split_rectangles, PHASE1, ["q"], ["q", "heap"])
    S.cover("loop-cut: while " + info["condition"])
    cut = loopcut.instantiate(code, geo.split_rectangles, hv)
    out = S.call(cut, [], lim, n)
    S.ensure("phase1.no_raise", out.ok)
    if not out.ok:
        return
    q, heap = list(out.value["q"]), [h.rect for h in out.value["heap"]]
    rr = ratio(rho.shape.w, rho.shape.h)
    S.ensure("phase1.compliant_rectangle_moves_to_the_result_unchanged_else_is_halved",
             sif(rr <= lim, len(q) == 0 and len(heap) == 1 and heap[0] is rho, len(q) == 2 and len(heap) == 0))
    if len(q) == 2:
        _pieces_tile(S, "phase1", rho, q, lim, False)
        S.ensure("phase1.ratio_strictly_decreases", sand(*[ratio(p.shape.w, p.shape.h) < rr for p in q]))
    S.ensure("phase1.result_heap_only_receives_compliant_rectangles", sand(*[ratio(p.shape.w, p.shape.h) <= lim for p in heap]))
    S.ensure("phase1.heap_entries_are_keyed_by_minus_area", sand(*[seq(h.area, -(h.rect.shape.w * h.rect.shape.h)) for h in out.value["heap"]]))


@contract(P, functions=[G + "split_rectangles"], budget_s=600, exact_feas_ms=50, leak_ok=True,
          note="loop cut of the second (count-driven) while loop: heap havocked to one arbitrary compliant rectangle")
def split_rectangles_phase2_iteration(S):
    """Inductive step of phase 2: with the heap holding an arbitrary COMPLIANT rectangle rho (heap invariant) and fewer than
    n results, one iteration of the real loop body replaces rho by at least two rectangles that tile it, inherit its tag and
    are all within the limit again (for every limit > sqrt 2, in particular below 2)."""
    rho = mk_rect(S, "rho", S.choice("reg", ["_", "A"]))
    lim = S.real("limit")
    S.assume(lim > 1.415)
    S.assume(ratio(rho.shape.w, rho.shape.h) <= lim)
    holder = {}

    def hv(name, old):
        if name == "heap":
            cls = holder["cls"]
            return [cls(-rho.area, rho)]
        if name == "q":
            return deque()
        return old
    code, info = loopcut.one_iteration_of_while(geo.split_rectangles, PHASE2, ["heap", "q"], ["q", "heap"])
    S.cover("loop-cut: while " + info["condition"])
    # the heap entries are instances of a class local to the function: fetch it from a first (concrete) phase-1 cut run
    code1, _ = loopcut.one_iteration_of_while(geo.split_rectangles, PHASE1, ["q"], ["heap"])
    probe = Rectangle(center=Point(0.5, 0.5), shape=Shape(1.0, 1.0))
    first = loopcut.instantiate(code1, geo.split_rectangles, lambda nm, old: deque([probe]) if nm == "q" else old)([], 2.0, 1)
    holder["cls"] = type(first["heap"][0])
    cut = loopcut.instantiate(code, geo.split_rectangles, hv)
    out = S.call(cut, [], lim, 2)
    S.ensure("phase2.no_raise", out.ok)
    if not out.ok:
        return
    q, heap = list(out.value["q"]), [h.rect for h in out.value["heap"]]
    S.ensure("phase2.work_list_is_empty_again_and_count_grows", len(q) == 0 and len(heap) >= 2)
    _pieces_tile(S, "phase2", rho, heap, lim, True)


# ---- bounded leg: larger concrete dies (the symbolic runs hold <= 3 regions and ask for <= 4) -----------------------------------------

def _boxes(rs):
    return [(r.center.x - r.shape.w / 2, r.center.y - r.shape.h / 2, r.center.x + r.shape.w / 2, r.center.y + r.shape.h / 2, r.region) for r in rs]


@contract(P, kind="enum", functions=[D + "split_refinable_regions", D + "initial_grid", D + "floorplanning_rectangles", G + "split_rectangles",
                                     G + "Rectangle.rectangle_grid"],
          scope="bounded: concrete dies (decimal sizes from 0.002 to 2000 units, up to 4 blockages / specialised regions, fixed modules), limits 1.42 .. 4, counts up to 60 (sometimes 256 / 400), "
                "grids up to 9 x 9, repeated refinement", params=[dict(chunk=i) for i in range(8)])
def larger_dies(chunk, replay=None):
    import os
    import random
    from frame.netlist.netlist import Netlist
    write_yaml = lambda d: __import__("json").dumps(d, indent=1)  # noqa: E731  input documents are written WITHOUT the library (JSON is a subset of YAML): the harness must not depend on the code under test
    tier = os.environ.get("VERIF_TIER", "quick")
    rng = random.Random(1100 + chunk + 100 * int(os.environ.get("VERIF_SEED", "0") or 0))
    n_des = 40 if tier != "thorough" else 600
    failures, evals, samples, maxn = [], 0, [], 0

    def check(info, before, after, blocks0, fixed0, d, n_min, lim, exact=None):
        """tiling of what was refinable before, tags, count, aspect ratio, blockages / fixed untouched"""
        bad = None
        tol = 1e-9 * max(d.width, d.height)
        if exact is not None and len(after) != exact:
            bad = f"{len(after)} regions instead of {exact}"
        if len(after) < n_min:
            bad = f"{len(after)} regions, at least {n_min} requested"
        area = {}
        for (x0, y0, x1, y1, tag) in after:
            owners = [i for i, (a0, b0, a1, b1, t) in enumerate(before) if x0 >= a0 - tol and y0 >= b0 - tol and x1 <= a1 + tol and y1 <= b1 + tol]
            if len(owners) != 1:
                bad = bad or f"region {(x0, y0, x1, y1)} lies inside {len(owners)} of the former regions"
                continue
            if before[owners[0]][4] != tag:
                bad = bad or f"region {(x0, y0, x1, y1)} carries tag {tag}, cut from a region tagged {before[owners[0]][4]}"
            area[owners[0]] = area.get(owners[0], 0.0) + (x1 - x0) * (y1 - y0)
            if lim is not None and max((x1 - x0) / (y1 - y0), (y1 - y0) / (x1 - x0)) > lim * (1 + 1e-9):
                bad = bad or f"region {(x0, y0, x1, y1)} has aspect ratio above {lim}"
        for i, (a0, b0, a1, b1, t) in enumerate(before):
            if abs(area.get(i, 0.0) - (a1 - a0) * (b1 - b0)) > 1e-9 * d.width * d.height:
                bad = bad or f"former region {i} is covered for {area.get(i, 0.0)} of {(a1 - a0) * (b1 - b0)}"
        for i in range(len(after)):
            for j in range(i + 1, len(after)):
                p, q = after[i], after[j]
                if min(p[2], q[2]) - max(p[0], q[0]) > tol and min(p[3], q[3]) - max(p[1], q[1]) > tol:
                    bad = bad or f"regions {p[:4]} and {q[:4]} overlap"
        if _boxes(d.blockages) != blocks0 or _boxes(d.fixed_regions) != fixed0 or _boxes(d.floorplanning_rectangles()[1]) != fixed0:
            bad = bad or "blockages or fixed regions changed"
        if bad:
            failures.append(dict(clause="big.refinement_keeps_the_tiling_reaches_the_count_and_bounds_the_ratio", observed=bad, **info))

    for it in range(n_des):
        if replay:
            spec, net, ops = replay["die"], replay["netlist"], replay["ops"]
        else:
            W, H = rng.choice([(10, 8), (12.5, 7.3), (30, 4), (3, 17), (0.9, 0.6), (100, 100), (0.002, 0.001), (0.004, 0.003), (2000.0, 1500.0), (5.5, 2), (1, 1), (50, 30)])
            step = min(W, H) / 10
            regions, taken = [], []
            for tag in rng.sample(["#", "DSP", "BRAM", "#", "LUT"], rng.randint(0, 4)):
                for _ in range(20):
                    w, h = rng.randint(1, 4) * step, rng.randint(1, 4) * step
                    x, y = rng.randint(0, int((W - w) / step)) * step, rng.randint(0, int((H - h) / step)) * step
                    b = (x, y, x + w, y + h)
                    if all(min(b[2], t[2]) - max(b[0], t[0]) <= 1e-12 or min(b[3], t[3]) - max(b[1], t[1]) <= 1e-12 for t in taken):
                        taken.append(b)
                        regions.append([x + w / 2, y + h / 2, w, h, tag])
                        break
            if rng.random() < 0.12:     # no ground region at all: tagged regions (and blockages) cover the whole die (added after seed C11-11)
                regions = rng.choice([[[W / 2, H / 2, W, H, "BRAM"]], [[W / 4, H / 2, W / 2, H, "DSP"], [3 * W / 4, H / 2, W / 2, H, "BRAM"]],
                                      [[W / 2, H / 4, W, H / 2, "DSP"], [W / 2, 3 * H / 4, W, H / 2, "#"]]])
                taken = [(0, 0, W, H)]
            net = None
            if rng.random() < 0.4:
                for _ in range(20):
                    w, h = rng.randint(1, 3) * step, rng.randint(1, 3) * step
                    x, y = rng.randint(0, int((W - w) / step)) * step, rng.randint(0, int((H - h) / step)) * step
                    b = (x, y, x + w, y + h)
                    if all(min(b[2], t[2]) - max(b[0], t[0]) <= 1e-12 or min(b[3], t[3]) - max(b[1], t[1]) <= 1e-12 for t in taken):
                        net = {"Modules": {"F": {"fixed": True, "rectangles": [[x + w / 2, y + h / 2, w, h]]}, "S": {"area": step * step, "center": [W / 2, H / 2]}}, "Nets": [["F", "S"]]}
                        break
            spec = {"width": W, "height": H}
            if regions:
                spec["regions"] = regions
            if not regions and net is None and rng.random() < 0.7:
                g = (rng.randint(1, 9), rng.randint(1, 9))
                if rng.random() < 0.5:      # many rows or columns: steps that are not representable (added after seed C11-11: vectorised centres)
                    nc = rng.randint(10, 60)
                    g = (rng.randint(1, max(1, 300 // nc)), nc)
                    g = g if rng.random() < 0.5 else (g[1], g[0])
                ops = [("grid",) + g] + [("split", rng.choice([1.42, 1.5, 2.0]), rng.randint(1, 60))]
            else:
                ops = [("split", rng.choice([1.42, 1.5, 1.9, 2.0, 3.0, 4.0]), rng.choice([1, 1, 2, 5, 17, 40, 60])) for _ in range(rng.randint(1, 3))]
                if rng.random() < 0.15:      # a large count (the count must be reached whatever the units of the die; added after seed C11-5)
                    ops = [("split", 2.0, rng.choice([256, 400]))]
        Rectangle.undefine_epsilon()
        try:
            d = Die(write_yaml(spec), Netlist(write_yaml(net)) if net else None)
        except AssertionError:
            continue
        for op in ops:
            info = dict(die=spec, netlist=net, ops=ops)
            before = _boxes(d.floorplanning_rectangles()[0])
            blocks0, fixed0 = _boxes(d.blockages), _boxes(d.fixed_regions)
            evals += 1
            try:
                if op[0] == "grid":
                    if op[1] + op[2] < 2:
                        continue
                    d.initial_grid(op[1], op[2])
                    check(info, before, _boxes(d.floorplanning_rectangles()[0]), blocks0, fixed0, d, op[1] * op[2], None, exact=op[1] * op[2])
                else:
                    d.split_refinable_regions(op[1], op[2])
                    after = _boxes(d.floorplanning_rectangles()[0])
                    maxn = max(maxn, len(after))
                    check(info, before, after, blocks0, fixed0, d, op[2], op[1])
            except Exception as e:  # noqa
                failures.append(dict(clause="big.refinement_succeeds", observed=f"{type(e).__name__}: {e}", **info))
                break
        if not samples:
            samples.append(dict(die=spec, ops=ops))
        if len(failures) >= 4 or replay:
            break
    Rectangle.undefine_epsilon()
    return dict(evaluations=evals, distinct_nontrivial=evals, exhaustive=False, failures=failures[:4],
                rule="random dies (6 sizes incl. decimal and elongated ones; up to 4 blockages / specialised regions and optionally a fixed module on a "
                     "tenth-of-the-die lattice) refined 1-3 times with limits from 1.42 to 4 and counts from 1 to 60, or gridded up to 9 x 9 and then refined; "
                     "after every operation: every region inside exactly one former region with its tag, former regions exactly covered, no overlap, count, "
                     f"aspect ratio, blockages and fixed regions unchanged; largest result: {maxn} regions", samples=samples, bound=f"{n_des} dies per chunk")


GRID_SIDES = [5.5, 30, 1, 50, 12.5, 7.3, 0.9, 0.004, 2000.0, 3]


@contract(P, kind="enum", functions=[D + "initial_grid", G + "Rectangle.rectangle_grid"],
          scope="bounded: every grid of 1 x n and n x 1 cells, n = 1..64 (thorough: 1..200), on dies with 10 decimal side lengths",
          params=[dict(side=i) for i in range(len(GRID_SIDES))])
def grids_with_many_rows_or_columns(side, replay=None):
    """added after seed C11-11 (grid centres computed with a float-step arange: one column too many for some counts): the grid has exactly
    rows x cols cells, cell (i, j) is the lattice cell of the die, for EVERY count up to the bound, not a sample."""
    import os
    tier = os.environ.get("VERIF_TIER", "quick")
    L = GRID_SIDES[side]
    other = 2.0 if L != 2.0 else 3.0
    failures, evals = [], 0
    counts = [replay["n"]] if replay else range(1, 65 if tier != "thorough" else 201)
    for n in counts:
        for horizontal in ([replay["horizontal"]] if replay else (True, False)):
            W, H = (L, other) if horizontal else (other, L)
            nr, nc = (1, n) if horizontal else (n, 1)
            Rectangle.undefine_epsilon()
            evals += 1
            try:
                d = Die(f"width: {W!r}\nheight: {H!r}\n")
                d.initial_grid(nr, nc)
                cells = sorted(_boxes(d.floorplanning_rectangles()[0]))
            except Exception as e:  # noqa
                failures.append(dict(clause="grid.succeeds", n=n, horizontal=horizontal, die=[W, H], observed=f"{type(e).__name__}: {e}"))
                continue
            tol = 1e-9 * min(W, H) / n
            want = sorted((j * W / nc, i * H / nr, (j + 1) * W / nc, (i + 1) * H / nr, "_") for i in range(nr) for j in range(nc))
            bad = None
            if len(cells) != n:
                bad = f"{len(cells)} cells instead of {n}"
            elif any(abs(a - b) > tol for c, w in zip(cells, want) for a, b in zip(c[:4], w[:4])) or any(c[4] != "_" for c in cells):
                k = next(k for k, (c, w) in enumerate(zip(cells, want)) if any(abs(a - b) > tol for a, b in zip(c[:4], w[:4])) or c[4] != "_")
                bad = f"cell {k} is {cells[k]}, the lattice cell is {want[k]}"
            if bad:
                failures.append(dict(clause="grid.cells_are_exactly_the_lattice_cells_of_the_die", n=n, horizontal=horizontal, die=[W, H], observed=bad))
        if len(failures) >= 4:
            break
    Rectangle.undefine_epsilon()
    return dict(evaluations=evals, distinct_nontrivial=evals, exhaustive=True, failures=failures[:4],
                rule="Die(W x H).initial_grid(1, n) and (n, 1) for every n up to the bound: exactly n refinable cells, the k-th one being [k*L/n, (k+1)*L/n] across the whole "
                     "other side, tag '_' (tolerance 1e-9 of a cell)", samples=[dict(side=L)], bound=f"n <= {max(counts)}")
