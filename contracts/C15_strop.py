"""C15 -- grid orthogon decomposition finds exactly the single-trunk decompositions
(tools/floorset_parser/floor_set_manager/strop.py, utils/utils.py::strop_decomposition)."""
import itertools
import os
import random

from vf import core
from vf.core import contract
from vf.symx import sand, sor, snot, seq, siff, simplies, sif, smax, smin
import tools.floorset_parser.floor_set_manager.strop as st
import tools.floorset_parser.floor_set_manager.utils.utils as fu
from tools.floorset_parser.floor_set_manager.strop import Strop, Interval, StropRectangle, EMPTY_INTERVAL
from frame.geometry.geometry import Point, Rectangle, parse_yaml_rectangle, create_stog

core.shim(st)
P = "C15"
T = "tools.floorset_parser.floor_set_manager."


# ---- deductive leaf contracts (loop-free integer code) --------------------------------------------------------------------

@contract(P, functions=[T + "strop.Interval.intersection", T + "strop.Interval.length", T + "strop.Interval.empty", T + "strop.StropRectangle.area"])
def interval_leaf_contracts(S):
    a0, a1, b0, b1 = S.int("a0", lo=0), S.int("a1"), S.int("b0", lo=0), S.int("b1")
    S.assume(sand(a0 <= a1, b0 <= b1))
    a, b = Interval(a0, a1), Interval(b0, b1)
    x = S.int("x")
    o = S.call(a.intersection, b)
    S.ensure("intersection.no_raise", o.ok)
    if o.ok:
        r = o.value
        in_r = sif(r.low == -1, False, sand(r.low <= x, x <= r.high)) if not isinstance(r.low, int) or r.low != -1 else False
        S.ensure("intersection.is_the_set_intersection", siff(in_r, sand(a0 <= x, x <= a1, b0 <= x, x <= b1)))
        o2 = S.call(b.intersection, a)
        S.ensure("intersection.symmetric", o2.ok and sand(seq(o2.value.low, r.low), seq(o2.value.high, r.high)))
        ln = S.call(r.length)
        S.ensure("length.is_the_number_of_integers", ln.ok and seq(ln.value, smax(0, smin(a1, b1) - smax(a0, b0) + 1)))
    e = S.call(EMPTY_INTERVAL.intersection, a)
    S.ensure("intersection.with_empty_is_empty", e.ok and e.value.low == -1 and S.call(e.value.length).value == 0 and e.value.empty())
    R = StropRectangle(a, b)
    S.ensure("rectangle.area_is_rows_times_columns", seq(S.call(R.area).value, (a1 - a0 + 1) * (b1 - b0 + 1)))
    S.ensure("rectangle.not_empty", S.call(R.empty).value is False or S.call(R.empty).value == False)  # noqa


@contract(P, canary=True)
def canary_interval_length(S):
    a0, a1 = S.int("a0", lo=0), S.int("a1")
    S.assume(a0 <= a1)
    S.ensure("canary.length_is_high_minus_low", seq(Interval(a0, a1).length(), a1 - a0))


# ---- bounded exhaustive legs ------------------------------------------------------------------------------------------------

def ones(m):
    return {(i, j) for i, row in enumerate(m) for j, v in enumerate(row) if v}


def oracle_trunks(m):
    """all rectangles T of ones such that every other one lies in a straight run starting at T's border, within T's extent"""
    nr, nc = len(m), len(m[0])
    cells = ones(m)
    good = []
    for r0 in range(nr):
        for r1 in range(r0, nr):
            for c0 in range(nc):
                for c1 in range(c0, nc):
                    if not all(m[i][j] for i in range(r0, r1 + 1) for j in range(c0, c1 + 1)):
                        continue
                    cover = {(i, j) for i in range(r0, r1 + 1) for j in range(c0, c1 + 1)}
                    for j in range(c0, c1 + 1):
                        i = r0 - 1
                        while i >= 0 and m[i][j]:
                            cover.add((i, j))
                            i -= 1
                        i = r1 + 1
                        while i < nr and m[i][j]:
                            cover.add((i, j))
                            i += 1
                    for i in range(r0, r1 + 1):
                        j = c0 - 1
                        while j >= 0 and m[i][j]:
                            cover.add((i, j))
                            j -= 1
                        j = c1 + 1
                        while j < nc and m[i][j]:
                            cover.add((i, j))
                            j += 1
                    if cover == cells:
                        good.append((r0, r1, c0, c1))
    return good


def rect_cells(r):
    return {(i, j) for i in range(r.rows.low, r.rows.high + 1) for j in range(r.columns.low, r.columns.high + 1)}


def check_instance(m, inst):
    """every offered decomposition partitions the ones into a trunk + branches abutting it within its extent"""
    cells = ones(m)
    rs = list(inst.rectangles())
    t = inst.trunk()
    if not rs or rs[0] is not t and rs[0] != t:
        return "trunk_is_listed_first"
    seen = set()
    for r in rs:
        if r.rows.low > r.rows.high or r.columns.low > r.columns.high or r.rows.low < 0 or r.columns.low < 0:
            return "rectangles_are_wellformed"
        c = rect_cells(r)
        if c & seen:
            return "rectangles_are_disjoint"
        if not c <= cells:
            return "rectangles_contain_only_polygon_cells"
        seen |= c
    if seen != cells:
        return "rectangles_cover_the_polygon"
    for r in rs[1:]:
        above = r.rows.high == t.rows.low - 1
        below = r.rows.low == t.rows.high + 1
        left = r.columns.high == t.columns.low - 1
        right = r.columns.low == t.columns.high + 1
        if (above or below) and t.columns.low <= r.columns.low and r.columns.high <= t.columns.high:
            continue
        if (left or right) and t.rows.low <= r.rows.low and r.rows.high <= t.rows.high:
            continue
        return "branch_abuts_the_trunk_within_its_extent"
    side_lists = {w: list(inst.rectangles(w)) for w in "NSEW"}
    if sum(len(v) for v in side_lists.values()) != len(rs) - 1 or list(inst.rectangles("T")) != [t]:
        return "side_selectors_consistent"
    return None


def grid_str(m):
    return "\n".join("".join("1" if v else "0" for v in row) for row in m)


def check_grid(m):
    txt = grid_str(m)
    try:
        s = Strop(txt)
        insts = list(s.instances())
    except AssertionError:
        return "constructor_accepts_every_binary_grid", None
    except Exception as e:  # noqa  (after seed C15-14: rows without any cell made the constructor raise ValueError) any exception of the code under test on a binary grid
        return "constructor_accepts_every_binary_grid", dict(raised=f"{type(e).__name__}: {e}")
    want = oracle_trunks(m) if ones(m) else []
    if s.is_strop != bool(want):
        return "reports_a_decomposition_exactly_when_one_exists", dict(is_strop=s.is_strop, oracle_trunks=want[:3])
    for inst in insts:
        bad = check_instance(m, inst)
        if bad:
            return bad, dict(instance=str(inst))
        t = inst.trunk()
        if (t.rows.low, t.rows.high, t.columns.low, t.columns.high) not in want:
            return "offered_trunk_is_a_valid_trunk", dict(trunk=str(t))
    return None, None


SHAPES_QUICK = [(1, 1), (1, 2), (2, 1), (1, 3), (3, 1), (2, 2), (1, 4), (4, 1), (2, 3), (3, 2), (3, 3), (2, 4), (4, 2), (3, 4), (4, 3), (4, 4)]
SHAPES_MORE = [(2, 5), (5, 2), (3, 5), (5, 3), (4, 5), (5, 4)]


@contract(P, kind="enum", functions=[T + "strop.Strop.__init__", T + "strop.Strop._get_potential_trunks", T + "strop.Strop._get_trunks_matrix",
                                     T + "strop.Strop._empty_corners", T + "strop.Strop._row_interval", T + "strop.StropInstance.__init__",
                                     T + "strop.StropInstance.rectangles"],
          scope="bounded: ALL 0/1 grids up to 4x4 (4x5 / 5x4 thorough) + random 6x6", params=[dict(chunk=i) for i in range(16)])
def every_small_grid_decomposed_exactly(chunk, replay=None):
    tier = os.environ.get("VERIF_TIER", "quick")
    shapes = SHAPES_QUICK + (SHAPES_MORE if tier == "thorough" else [])
    evals = nontrivial = 0
    failures, samples = [], []
    if replay:
        grids = [[[c == "1" for c in row] for row in replay["grid"].split()]]
    else:
        def gen():
            n = 0
            for nr, nc in shapes:
                for bits in range(2 ** (nr * nc)):
                    n += 1
                    if n % 16 == chunk:
                        yield [[bool((bits >> (i * nc + j)) & 1) for j in range(nc)] for i in range(nr)]
            rng = random.Random(99 + chunk + 17 * int(os.environ.get("VERIF_SEED", "0") or 0))
            for _ in range(300 if tier != "thorough" else 5000):
                p = rng.choice([0.5, 0.7, 0.85])
                yield [[rng.random() < p for _ in range(6)] for _ in range(6)]
        grids = gen()
    for m in grids:
        evals += 1
        bad, info = check_grid(m)
        if ones(m) and oracle_trunks(m):
            nontrivial += 1
        if len(samples) < 2 and nontrivial == 5:
            samples.append(grid_str(m))
        if bad:
            failures.append(dict(clause=bad, grid=grid_str(m), info=info))
            if len(failures) >= 4:
                break
    return dict(evaluations=evals, distinct_nontrivial=nontrivial, exhaustive=True, failures=failures,
                rule="every 0/1 grid of every shape up to the bound (each grid once), plus random 6x6 grids; oracle: brute force over ALL "
                     "rectangles of ones as trunk with straight runs from its sides; every offered instance must partition the ones into "
                     "trunk + branches abutting the trunk within its extent; non-trivial = grids that have a decomposition",
                samples=samples or ["1"], bound="4x4" if tier != "thorough" else "4x5/5x4")


def _large_grids():
    """single-trunk and non-single-trunk grids with more than 256 cells (added after seed C15-10: the cell-count test written with `is`
    only agrees with `==` for the small integers CPython caches)"""
    out = []
    out.append([[True] * 17 for _ in range(16)])                       # a full rectangle, 272 cells
    out.append([[True] * 13 for _ in range(23)])
    n = 21
    plus = [[(7 <= i < 14) or (7 <= j < 14) for j in range(n)] for i in range(n)]          # a plus: trunk in the middle, four branches
    out.append(plus)
    sky = [[(i >= 20 - (j * 7) % 13) for j in range(24)] for i in range(22)]              # a skyline: 24 columns of different heights on a base
    for j in range(24):
        sky[21][j] = sky[20][j] = True
    out.append(sky)
    holed = [[True] * 18 for _ in range(18)]
    holed[5][5] = holed[12][12] = False                                 # two separate holes: no single-trunk decomposition
    out.append(holed)
    return out


@contract(P, kind="enum", functions=[T + "strop.Strop.__init__", T + "strop.StropInstance.__init__"], scope="bounded: five grids of 270-530 cells")
def large_grids(replay=None):
    failures, evals, nontrivial = [], 0, 0
    for m in _large_grids():
        evals += 1
        bad, info = check_grid(m)
        nontrivial += 1 if oracle_trunks(m) else 0
        if bad:
            failures.append(dict(clause=bad, grid=grid_str(m)[:400], info=info))
    return dict(evaluations=evals, distinct_nontrivial=nontrivial, exhaustive=False, failures=failures[:3],
                rule="a full 16x17 and 23x13 rectangle, a 21x21 plus, a 24-column skyline and an 18x18 square with two holes, against the same brute-force "
                     "oracle and partition check as the small grids", samples=["16x17 full"], bound="5 grids")


@contract(P, kind="enum", functions=[T + "strop.Strop._row_interval"], scope="bounded: all boolean rows of length <= 10")
def row_interval_exact(replay=None):
    failures, evals = [], 0
    for n in range(0, 11):
        for bits in itertools.product([False, True], repeat=n):
            evals += 1
            idx = [i for i, b in enumerate(bits) if b]
            try:
                r = Strop._row_interval(list(bits))
            except Exception as e:  # noqa
                failures.append(dict(clause="row_interval_is_the_single_run_of_ones_or_empty", row=bits, observed=f"{type(e).__name__}: {e}"))
                continue
            want = (idx[0], idx[-1]) if idx and idx[-1] - idx[0] + 1 == len(idx) else (-1, -1)
            if (r.low, r.high) != want:
                failures.append(dict(clause="row_interval_is_the_single_run_of_ones_or_empty", row=bits, observed=(r.low, r.high)))
    return dict(evaluations=evals, distinct_nontrivial=evals - 1, exhaustive=True, failures=failures[:3],
                rule="all boolean rows of length 0..10; the result is the run of ones iff the ones are contiguous", samples=[[True, True, False]], bound="n <= 10")


# ---- polygons given by vertices ----------------------------------------------------------------------------------------------

def boundary_polygon(cells):
    """vertex list (lattice points (col, row) with row growing downwards) of a simply connected, 4-connected cell set; None otherwise"""
    if not cells:
        return None
    # connectivity
    start = next(iter(cells))
    stack, seen = [start], {start}
    while stack:
        i, j = stack.pop()
        for d in ((1, 0), (-1, 0), (0, 1), (0, -1)):
            n = (i + d[0], j + d[1])
            if n in cells and n not in seen:
                seen.add(n)
                stack.append(n)
    if seen != cells:
        return None
    # directed boundary edges (cell on the left of the direction)
    edges = {}
    for (i, j) in cells:
        for a, b, nb in (((j, i), (j + 1, i), (i - 1, j)), ((j + 1, i), (j + 1, i + 1), (i, j + 1)),
                         ((j + 1, i + 1), (j, i + 1), (i + 1, j)), ((j, i + 1), (j, i), (i, j - 1))):
            if nb not in cells:
                if a in edges:
                    return None        # a vertex with two outgoing boundary edges: pinch point / not simple
                edges[a] = b
    p0 = next(iter(edges))
    poly, p = [p0], edges[p0]
    while p != p0:
        poly.append(p)
        p = edges.get(p)
        if p is None or len(poly) > len(edges) + 1:
            return None
    if len(poly) != len(edges):
        return None                    # several boundary cycles: holes
    # drop collinear points
    out = []
    n = len(poly)
    for k in range(n):
        a, b, c = poly[k - 1], poly[k], poly[(k + 1) % n]
        if not ((a[0] == b[0] == c[0]) or (a[1] == b[1] == c[1])):
            out.append(b)
    return out


LINES = [([0.0, 1.0, 2.0, 3.0, 4.0], [0.0, 1.0, 2.0, 3.0, 4.0]), ([0.0, 1.0, 2.5, 3.0, 4.75], [10.0, 10.5, 12.0, 13.0, 13.3]),
         ([0.0, 0.1, 0.2, 0.30000000000000004, 0.4], [0.0, 1 / 3, 2 / 3, 1.0, 4 / 3]),
         # coordinates that look like markers: -1 is the padding value of FloorSet vertex arrays (added after seed C15-7)
         ([-1.0, 0.0, 1.0, 2.0, 3.0], [-2.0, -1.0, 0.0, 1.0, 2.0]),
         # far from the origin, all numbers exact (after the open seed r8-C15-2: a relative tolerance decided which edges are horizontal)
         ([2.0 ** 30 + k for k in range(5)], [1e9 + k for k in range(5)])]


@contract(P, kind="enum", functions=[T + "utils.utils.strop_decomposition", T + "utils.utils.is_point_inside_polygon", "frame.geometry.geometry.create_stog"],
          scope="bounded: every simple orthogonal polygon drawn on a 4x4 lattice (any number of vertices), both orientations, 3 coordinate scalings, open and closed lists",
          params=[dict(chunk=i) for i in range(16)])
def polygons_decomposed_with_their_area(chunk, replay=None):
    tier = os.environ.get("VERIF_TIER", "quick")
    evals = nontrivial = 0
    failures, samples = [], []
    n = 0
    seen = set()
    for nr, nc in [(2, 2), (2, 3), (3, 2), (3, 3), (3, 4), (4, 3), (4, 4)]:
        for bits in range(1, 2 ** (nr * nc)):
            m = [[bool((bits >> (i * nc + j)) & 1) for j in range(nc)] for i in range(nr)]
            cells = ones(m)
            # only patterns that touch all four sides of their bounding lattice (others are translations of smaller ones)
            if not (any(m[0]) and any(m[-1]) and any(r[0] for r in m) and any(r[-1] for r in m)):
                continue
            n += 1
            if n % 16 != chunk:
                continue
            poly = boundary_polygon(cells)
            if poly is None:
                continue
            decomposable = bool(oracle_trunks(m))
            for li, (xs, ys) in enumerate(LINES if tier == "thorough" else LINES[:2] + ([LINES[2]] if n % 5 == 0 else []) + ([LINES[3]] if n % 3 == 0 else []) + ([LINES[4]] if n % 4 == 0 else [])):
                # y grows upwards in the floorplan: row i spans ys'[nr - i - 1] .. ys'[nr - i]
                Y = ys[:nr + 1]
                X = xs[:nc + 1]
                pts = [(X[c], Y[nr - r]) for (c, r) in poly]
                area = sum((X[j + 1] - X[j]) * (Y[nr - i] - Y[nr - i - 1]) for (i, j) in cells)
                variants = [pts, list(reversed(pts)), pts[2:] + pts[:2], pts + [pts[0]], pts]
                for vi, vs in enumerate(variants):
                    evals += 1
                    if vi == 4:         # the other accepted input type: a (k, 2) numpy array
                        import numpy as np
                        verts = np.array(vs, dtype=float)
                    else:
                        verts = [Point(x, y) for x, y in vs]
                    try:
                        rects = fu.strop_decomposition(verts)
                    except AssertionError:
                        if decomposable:
                            failures.append(dict(clause="polygon_with_a_decomposition_is_decomposed", vertices=vs))
                        continue
                    except Exception as e:  # noqa
                        failures.append(dict(clause="strop_decomposition_does_not_crash", vertices=vs, observed=f"{type(e).__name__}: {e}"))
                        continue
                    if not decomposable:
                        failures.append(dict(clause="polygon_without_decomposition_is_refused", vertices=vs, observed=rects))
                        continue
                    nontrivial += 1 if (bits, nr, nc, li, vi) not in seen else 0
                    seen.add((bits, nr, nc, li, vi))
                    tot = sum(r[2] * r[3] for r in rects)
                    if abs(tot - area) > 1e-9 * area:
                        failures.append(dict(clause="rectangles_have_the_polygon_area", vertices=vs, observed=tot, expected=area))
                        continue
                    if any(r[2] <= 0 or r[3] <= 0 for r in rects):
                        failures.append(dict(clause="rectangles_are_not_degenerate", vertices=vs, observed=rects))
                        continue
                    Rectangle.undefine_epsilon()
                    Rectangle.set_epsilon(1e-9 * min(X[-1] - X[0], Y[-1] - Y[0]))
                    # a module's rectangles live in the positive quadrant: polygons drawn elsewhere are translated before they are loaded
                    ox, oy = max(0.0, -X[0]) + (1.0 if X[0] < 0 else 0.0), max(0.0, -Y[0]) + (1.0 if Y[0] < 0 else 0.0)
                    rs = [parse_yaml_rectangle([r[0] + ox, r[1] + oy] + list(r[2:])) for r in rects]
                    first = rs[0]
                    ok = create_stog(rs)
                    if not ok or rs[0].location != Rectangle.StogLocation.TRUNK:
                        failures.append(dict(clause="loaded_as_a_module_it_is_a_single_trunk_orthogon", vertices=vs, rectangles=rects))
                    elif any(first.find_location(o) == Rectangle.StogLocation.NO_POLYGON for o in rs if o is not first):
                        failures.append(dict(clause="the_first_rectangle_returned_is_a_trunk_for_the_others", vertices=vs, rectangles=rects))
                    if len(samples) < 2:
                        samples.append(dict(vertices=vs, rectangles=rects))
                if len(failures) >= 4:
                    break
            if len(failures) >= 4:
                break
    Rectangle.undefine_epsilon()
    return dict(evaluations=evals, distinct_nontrivial=nontrivial, exhaustive=True, failures=failures[:4],
                rule="every 4-connected hole-free cell pattern on lattices up to 4x4 (touching all four sides) traced to its boundary vertex "
                     "list; given counter-clockwise, clockwise, rotated, closed, and as a numpy array; coordinates through 2-4 line sets (unit, non-uniform, negative incl. -1, "
                     "decimal); oracle: cell areas, brute-force decomposability; then parse_yaml_rectangle + create_stog; non-trivial = "
                     "distinct decomposable (polygon, scaling, variant) cases",
                samples=samples or ["none"], bound="4x4 lattice")
