"""C05 -- a loaded netlist matches its definition; ill-formed designs are rejected
(frame/netlist: netlist.py, module.py, netlist_types.py, yaml_read_netlist.py; geometry.parse_yaml_rectangle)."""
from vf.core import contract
from .netlist_common import *  # noqa

P = "C05"


def _load(S, tree):
    E, EA = set_eps(S)
    stub_find_location(S, E, EA)
    return S.call(Netlist, tree), E, EA


def _check_module(S, pre, m, info, EA=None):
    hard = bool(info.get("hard") or info.get("fixed") or info.get("terminal"))
    fixed = bool(info.get("fixed"))
    S.ensure(pre + ".kind_flags", m.is_hard == hard and m.is_fixed == fixed and m.is_terminal == bool(info.get("terminal"))
             and m.is_soft == (not hard) and m.flip == bool(info.get("flip")))
    S.ensure(pre + ".area_is_sum_of_region_areas_or_rectangle_areas", seq(m.area(), spec_area(info)))
    ar = spec_area_regions(info)
    S.ensure(pre + ".per_region_areas", sorted(m.area_regions.keys()) == sorted(ar.keys()) and
             sand(*[seq(m.area(k), ar[k]) for k in ar]) and seq(m.area("nowhere"), 0))
    c = spec_center(info)
    if c is None:
        S.ensure(pre + ".no_centre", m.center is None)
    else:
        S.ensure(pre + ".centre_is_area_weighted_centroid_or_given", m.center is not None and sand(seq(m.center.x, c[0]), seq(m.center.y, c[1])))
    rs = info.get("rectangles", [])
    S.ensure(pre + ".rectangles_as_in_document", rect_multiset_eq(m.rectangles, rs, fixed, hard))
    S.ensure(pre + ".area_of_rectangles", seq(m.area_rectangles, sum(rect_area(r) for r in rs)) if rs else True)


@contract(P, functions=[N + "yaml_read_netlist.parse_yaml_rectangles", "frame.geometry.geometry.parse_yaml_rectangle"],
          params=[dict(kind=k, region=r) for k in ("soft", "hard", "fixed") for r in (None, "LUT") if not (r and k != "soft")])
def single_rectangle_in_flat_form(S, kind, region):
    """added after seed C05-13: ONE rectangle may be written flat, `rectangles: [x, y, w, h]` or `[x, y, w, h, region]`, instead of as a
    list of one list; the module it describes is the same"""
    r = sym_rect(S, "r", region)
    nested = (soft_module(S, "m", "one_region" if region else "scalar", False) if kind == "soft" else {"fixed": True} if kind == "fixed" else {"hard": True})
    nested["rectangles"] = [list(r)]
    flat = dict(nested, rectangles=list(r))
    out, E, EA = _load(S, {"Modules": {"M": flat}})
    S.ensure("flat.loads", out.ok)
    if not out.ok:
        return
    _check_module(S, "flat", out.value.modules[0], nested)
    S.ensure("flat.netlist_rectangles", out.value.num_rectangles == 1 and len(out.value.fixed_rectangles()) == (1 if kind == "fixed" else 0))


SOFT = [dict(area=a, center=c, ar=r, nrect=n) for a in ("scalar", "ground_dict", "one_region", "two_regions")
        for c in (True, False) for r in (None, "scalar", "pair") for n in (0, 1, 2) if (c or n or True)]


@contract(P, functions=[N + "netlist.Netlist.__init__", N + "yaml_read_netlist.parse_yaml_module", N + "module.Module.__init__",
                        N + "module.Module.setup", N + "module.Module.area", N + "module.Module.calculate_center_from_rectangles",
                        N + "netlist.Netlist._create_rectangles", "frame.geometry.geometry.parse_yaml_rectangle"],
          params=SOFT, budget_s=600)
def soft_module_matches_definition(S, area, center, ar, nrect):
    info = soft_module(S, "m", area, center, ar, nrect, regions=("LUT" if area in ("one_region", "two_regions") else None, None))
    tree = {"Modules": {"M": info}}
    out, E, EA = _load(S, tree)
    S.ensure("soft.loads", out.ok)
    if not out.ok:
        return
    n = out.value
    S.ensure("soft.one_module", n.num_modules == 1 and n.modules[0].name == "M" and n.get_module("M") is n.modules[0])
    m = n.modules[0]
    _check_module(S, "soft", m, info)
    if ar == "scalar":
        v = info["aspect_ratio"]
        S.ensure("soft.aspect_ratio_interval", sand(seq(m.aspect_ratio.min_wh, smin(v, 1 / v)), seq(m.aspect_ratio.max_wh, smax(v, 1 / v))))
    elif ar == "pair":
        S.ensure("soft.aspect_ratio_interval", sand(seq(m.aspect_ratio.min_wh, info["aspect_ratio"][0]), seq(m.aspect_ratio.max_wh, info["aspect_ratio"][1])))
    else:
        S.ensure("soft.aspect_ratio_interval", m.aspect_ratio is None)
    S.ensure("soft.netlist_rectangles", len(n.rectangles) == nrect and sorted(map(id, n.rectangles)) == sorted(map(id, m.rectangles))
             and n.num_rectangles == nrect and len(n.fixed_rectangles()) == 0)
    S.ensure("soft.no_nets", n.num_edges == 0 and seq(n.wire_length, 0))


KEY_ORDERS = ["flag_false_first", "flag_false_last", "center_first", "rectangles_first", "terminal_false", "flip_false_hard_false"]


@contract(P, functions=[N + "yaml_read_netlist.parse_yaml_module", N + "module.Module.__init__", N + "module.Module.area"],
          params=[dict(order=o, flag=f) for o in KEY_ORDERS for f in ("fixed", "hard")], budget_s=300)
def soft_module_with_explicit_false_flags_and_any_key_order(S, order, flag):
    """the attributes of a module may come in any order in the document and boolean attributes may be written explicitly as
    false: the loaded module is the same soft module with the same derived quantities"""
    base = soft_module(S, "m", "two_regions", True, "pair", 1, regions=("LUT",))
    items = list(base.items())
    if order == "flag_false_first":
        items = [(flag, False)] + items
    elif order == "flag_false_last":
        items = items + [(flag, False)]
    elif order == "center_first":
        items = [("center", base["center"]), (flag, False)] + [(k, v) for k, v in items if k != "center"]
    elif order == "rectangles_first":
        items = [("rectangles", base["rectangles"])] + [(k, v) for k, v in items if k != "rectangles"] + [(flag, False)]
    elif order == "terminal_false":
        items = [("area", base["area"]), ("terminal", False)] + [(k, v) for k, v in items if k != "area"] if False else [(flag, False), ("center", base["center"]), ("area", base["area"])] + [(k, v) for k, v in items if k not in ("area", "center")]
    else:
        items = [("flip", False), (flag, False)] + items
    info = dict(items)
    out, E, EA = _load(S, {"Modules": {"M": info}})
    S.ensure("flags.loads", out.ok)
    if out.ok:
        _check_module(S, "flags", out.value.modules[0], base)


@contract(P, functions=[N + "netlist.Netlist.__init__", N + "module.Module.setup", N + "netlist.Netlist.fixed_rectangles"],
          params=[dict(nrect=k, fixed=f, flip=fl) for k in (1, 2) for f in (False, True) for fl in (False, True) if not (f and fl)],
          budget_s=600)
def hard_module_matches_definition(S, nrect, fixed, flip):
    info = hard_module(S, "h", nrect, fixed, flip)
    tree = {"Modules": {"H": info}}
    out, E, EA = _load(S, tree)
    rs = info["rectangles"]
    overlapping = sor(*[ovl_r(rs[i], rs[j]) > EA for i in range(nrect) for j in range(i + 1, nrect)]) if nrect > 1 else False
    if not out.ok:
        S.ensure("hard.rejected_only_for_overlap_or_unflippable", sand(out.raised(AssertionError), sor(overlapping, flip)))
        return
    S.ensure("hard.overlapping_rectangles_rejected", snot(overlapping))
    n = out.value
    m = n.modules[0]
    _check_module(S, "hard", m, info)
    S.ensure("hard.fixed_rectangles_are_those_of_fixed_modules",
             len(n.fixed_rectangles()) == (nrect if fixed else 0) and all(r.fixed == fixed and r.hard for r in m.rectangles))
    if flip:
        S.ensure("hard.flippable_module_is_a_single_trunk_orthogon", m.has_stog)


@contract(P, tier="thorough", functions=[N + "netlist.Netlist.__init__"], budget_s=3000, shards=8, shard_depth=4,
          params=[dict(area=a, nrect=3) for a in ("scalar", "two_regions")], scope="soft module with 3 rectangles (real create_stog against the find_location contract)")
def soft_module_three_rectangles(S, area, nrect):
    info = soft_module(S, "m", area, False, None, nrect, regions=("LUT", None, None))
    out, E, EA = _load(S, {"Modules": {"M": info}})
    S.ensure("soft3.loads", out.ok)
    if out.ok:
        _check_module(S, "soft3", out.value.modules[0], info)


@contract(P, functions=[N + "netlist.Netlist._create_rectangles", N + "module.Module.setup"], budget_s=300,
          scope="bounded: hard module with 3 rectangles (all values symbolic)")
def hard_module_three_rectangles(S):
    """loads iff no two of its rectangles overlap (every pair is compared, in every order of the document)"""
    info = hard_module(S, "h", 3, False, False)
    E, EA = set_eps(S)
    if S.mode == "sym":
        # callees replaced by their contracts: Rectangle.overlap (C18: <=> common area > EA), create_stog (C06: only reorders / labels)
        S.patch(Rectangle, "overlap", lambda self, r: ovl(self, r) > EA)
        # ... with an ARBITRARY verdict (changed after seed C05-11, which skipped the overlap check for recognised orthogons: two branches of
        # an orthogon may overlap each other): the overlap check does not depend on what the recognition says
        def stog_stub(rects):
            yes = bool(S.symbool("recognised_as_orthogon"))
            for i, r in enumerate(rects):       # the labelling part of the C06 contract: trunk first, every other rectangle on a side
                r.location = (Rectangle.StogLocation.TRUNK if i == 0 else Rectangle.StogLocation.NORTH) if yes else Rectangle.StogLocation.NO_POLYGON
            return yes
        S.patch(modmod, "create_stog", stog_stub)
    out = S.call(Netlist, {"Modules": {"H": info}})
    rs = info["rectangles"]
    overlapping = sor(*[ovl_r(rs[i], rs[j]) > EA for i in range(3) for j in range(i + 1, 3)])
    S.ensure("hard3.loads_iff_no_two_rectangles_overlap", siff(out.ok, snot(overlapping)))
    S.ensure("hard3.rejection_is_assertion", out.ok or out.raised(AssertionError))
    if out.ok:
        m = out.value.modules[0]
        S.ensure("hard3.area_and_centre", sand(seq(m.area(), spec_area(info)), seq(m.center.x, spec_center(info)[0]), seq(m.center.y, spec_center(info)[1])))


def ovl_r(a, b):
    dx = smax(0, smin(a[0] + a[2] / 2, b[0] + b[2] / 2) - smax(a[0] - a[2] / 2, b[0] - b[2] / 2))
    dy = smax(0, smin(a[1] + a[3] / 2, b[1] + b[3] / 2) - smax(a[1] - a[3] / 2, b[1] - b[3] / 2))
    return dx * dy


@contract(P, functions=[N + "netlist.Netlist.__init__", N + "module.Module.__init__"],
          params=[dict(center=c, fixed=f) for c in (True, False) for f in (False, True)])
def terminal_matches_definition(S, center, fixed):
    info = terminal_module(S, "t", center, fixed)
    out, E, EA = _load(S, {"Modules": {"T": info}})
    if fixed and not center:
        S.ensure("terminal.fixed_terminal_without_centre_rejected", out.raised(AssertionError))
        return
    S.ensure("terminal.loads", out.ok)
    if out.ok:
        m = out.value.modules[0]
        _check_module(S, "terminal", m, info)
        S.ensure("terminal.no_rectangles", m.num_rectangles == 0 and len(out.value.rectangles) == 0)


@contract(P, functions=[N + "netlist_types.HyperEdge.wire_length", N + "netlist.Netlist.wire_length", N + "netlist.Netlist.__init__",
                        N + "yaml_read_netlist.parse_yaml_edges"], params=[dict(pins=k, weighted=w) for k in (2, 3, 4) for w in (False, True)],
          budget_s=600, vc_timeout_s=60)
def wire_length_matches_definition(S, pins, weighted):
    mods = {}
    names = [f"M{i}" for i in range(4)]
    for i, nm in enumerate(names):
        mods[nm] = soft_module(S, f"m{i}", "scalar", True) if i != 3 else terminal_module(S, "t", True)
    net = names[:pins]
    w = S.real("wt")
    if weighted:
        net = net + [w]
    tree = {"Modules": mods, "Nets": [net, [names[0], names[3]]]}
    out, E, EA = _load(S, tree)
    if weighted:
        S.ensure("net.loads_iff_weight_positive", siff(out.ok, w > 0))
    else:
        S.ensure("net.loads", out.ok)
    if not out.ok:
        S.ensure("net.rejection_is_assertion", out.raised(AssertionError))
        return
    n = out.value
    S.ensure("net.members_and_weights", n.num_edges == 2 and [m.name for m in n.edges[0].modules] == names[:pins]
             and [m.name for m in n.edges[1].modules] == [names[0], names[3]] and
             sand(seq(n.edges[0].weight, w if weighted else 1), seq(n.edges[1].weight, 1)))
    cs = [tuple(mods[nm]["center"]) for nm in names]
    wl0 = S.call(lambda: n.edges[0].wire_length)
    wl1 = S.call(lambda: n.edges[1].wire_length)
    tot = S.call(lambda: n.wire_length)
    S.ensure("net.wire_length_no_raise", wl0.ok and wl1.ok and tot.ok)
    if wl0.ok and wl1.ok and tot.ok:
        e0 = spec_wire_length(S, cs[:pins], w if weighted else 1)
        e1 = spec_wire_length(S, [cs[0], cs[3]], 1)
        S.ensure("net.wire_length_is_weight_times_sum_of_distances_to_mean", sand(seq(wl0.value, e0), seq(wl1.value, e1)))
        S.ensure("netlist.wire_length_is_sum_over_nets", seq(tot.value, e0 + e1))


@contract(P, functions=[N + "netlist.Netlist.__init__", N + "netlist.Netlist.fixed_rectangles", N + "netlist.Netlist.rectangles"], budget_s=600)
def mixed_netlist_lists(S):
    mods = {"S": soft_module(S, "s", "scalar", True, None, 1), "F": hard_module(S, "f", 1, True), "H": hard_module(S, "h", 1, False),
            "T": terminal_module(S, "t", True, True), "Q": soft_module(S, "q", "two_regions", True)}
    tree = {"Modules": mods, "Nets": [["S", "F", "T"], ["H", "Q", S.real("w", pos=True)]]}
    out, E, EA = _load(S, tree)
    S.ensure("mixed.loads", out.ok)
    if not out.ok:
        return
    n = out.value
    S.ensure("mixed.modules_in_document_order", [m.name for m in n.modules] == ["S", "F", "H", "T", "Q"])
    S.ensure("mixed.all_rectangles_in_document_order", len(n.rectangles) == 3 and
             sand(same_rect(n.rectangles[0], mods["S"]["rectangles"][0]), same_rect(n.rectangles[1], mods["F"]["rectangles"][0], True, True),
                  same_rect(n.rectangles[2], mods["H"]["rectangles"][0], False, True)))
    fr = n.fixed_rectangles()
    S.ensure("mixed.fixed_rectangles_are_exactly_those_of_fixed_modules", len(fr) == 1 and fr[0] is n.get_module("F").rectangles[0])
    for nm in mods:
        _check_module(S, "mixed." + nm, n.get_module(nm), mods[nm])


# ---- ill-formed designs are rejected -----------------------------------------------------------------------------------

DEFECTS = ["unknown_module_in_net", "weight_zero", "weight_negative", "area_zero", "area_negative", "region_area_zero", "soft_without_area",
           "hard_with_area", "hard_without_rectangles", "fixed_without_rectangles", "hard_overlapping_rectangles", "unknown_attribute",
           "invalid_module_name", "invalid_region_name", "one_pin_net", "one_pin_net_with_weight", "empty_net", "rect_width_zero",
           "rect_height_negative", "rect_three_values", "hard_rect_with_region", "non_string_pin", "soft_flip", "fixed_flip",
           "terminal_with_area", "hard_and_fixed", "aspect_ratio_nonpositive", "aspect_ratio_bad_interval", "center_three_values",
           "modules_not_dict", "nets_not_list", "unknown_top_key", "area_string", "net_in_middle_unknown"]


@contract(P, functions=[N + "netlist.Netlist.__init__", N + "yaml_read_netlist.parse_yaml_netlist", N + "yaml_read_netlist.parse_yaml_edges",
                        N + "module.Module.setup", N + "module.Module._read_region_area", "frame.geometry.geometry.parse_yaml_rectangle",
                        "frame.geometry.geometry.Rectangle.__init__", "frame.utils.utils.valid_identifier"],
          params=[dict(defect=d) for d in DEFECTS], budget_s=600)
def illformed_design_rejected(S, defect):
    """A well-formed document (soft + hard(2 rects) + fixed + terminal, two nets) with ONE defect injected; the offending
    number is symbolic over its whole defective range."""
    mods = {"S": soft_module(S, "s", "two_regions", True, "scalar", 1, regions=("LUT",)), "H": hard_module(S, "h", 2, False),
            "F": hard_module(S, "f", 1, True), "T": terminal_module(S, "t", True), "Q": soft_module(S, "q", "scalar", True)}
    nets = [["S", "H", "T"], ["F", "Q", S.real("w", pos=True)]]
    tree = {"Modules": mods, "Nets": nets}
    bad = S.real("bad")
    d = defect
    if d == "unknown_module_in_net":
        nets[0][1] = "X"
    elif d == "net_in_middle_unknown":
        nets.insert(1, ["S", "nope"])
    elif d == "weight_zero":
        nets[1][2] = 0
    elif d == "weight_negative":
        S.assume(bad < 0)
        nets[1][2] = bad
    elif d == "area_zero":
        mods["Q"]["area"] = 0
    elif d == "area_negative":
        S.assume(bad < 0)
        mods["Q"]["area"] = bad
    elif d == "region_area_zero":
        S.assume(bad <= 0)
        mods["S"]["area"]["DSP"] = bad
    elif d == "soft_without_area":
        del mods["Q"]["area"]
    elif d == "hard_with_area":
        mods["H"]["area"] = S.real("ha", pos=True)
    elif d == "hard_without_rectangles":
        del mods["H"]["rectangles"]
    elif d == "fixed_without_rectangles":
        del mods["F"]["rectangles"]
    elif d == "hard_overlapping_rectangles":
        r0, r1 = mods["H"]["rectangles"]
        E_ = None
    elif d == "unknown_attribute":
        mods["Q"]["colour"] = 3
    elif d == "invalid_module_name":
        mods[S.choice("name", ["1a", "a-b", "", "x y"])] = mods.pop("Q")
        nets[1][1] = "S"
    elif d == "invalid_region_name":
        mods["S"]["area"] = {S.choice("rname", ["1a", "a-b", ""]): S.real("ra", pos=True)}
    elif d == "one_pin_net":
        nets.append(["S"])
    elif d == "one_pin_net_with_weight":
        nets.append(["S", S.real("w1", pos=True)])
    elif d == "empty_net":
        nets.append([])
    elif d == "rect_width_zero":
        mods["S"]["rectangles"][0][2] = 0
    elif d == "rect_height_negative":
        S.assume(bad < 0)
        mods["H"]["rectangles"][1][3] = bad
    elif d == "rect_three_values":
        mods["S"]["rectangles"][0] = mods["S"]["rectangles"][0][:3]
    elif d == "hard_rect_with_region":
        mods["H"]["rectangles"][0].append("LUT")
    elif d == "non_string_pin":
        nets[0][0] = 5
    elif d == "soft_flip":
        mods["Q"]["flip"] = True
    elif d == "fixed_flip":
        mods["F"]["flip"] = True
    elif d == "terminal_with_area":
        mods["T"]["area"] = S.real("ta", pos=True)
    elif d == "hard_and_fixed":
        mods["F"]["hard"] = True
    elif d == "aspect_ratio_nonpositive":
        S.assume(bad <= 0)
        mods["S"]["aspect_ratio"] = bad
    elif d == "aspect_ratio_bad_interval":
        lo, hi = S.real("lo"), S.real("hi")
        S.assume(sor(lo < 0, lo > 1, hi < 1))
        mods["S"]["aspect_ratio"] = [lo, hi]
    elif d == "center_three_values":
        mods["Q"]["center"] = [1, 2, 3]
    elif d == "modules_not_dict":
        tree["Modules"] = list(mods.values())
    elif d == "nets_not_list":
        tree["Nets"] = {"n": nets[0]}
    elif d == "unknown_top_key":
        tree["Die"] = 3
    elif d == "area_string":
        mods["Q"]["area"] = "12"
    E, EA = set_eps(S)
    stub_find_location(S, E, EA)
    if d == "hard_overlapping_rectangles":
        r0, r1 = mods["H"]["rectangles"]
        S.assume(ovl_r(r0, r1) > EA)
    elif "rectangles" in mods["H"]:
        r0, r1 = mods["H"]["rectangles"][0][:4], mods["H"]["rectangles"][1][:4]
        S.assume(ovl_r(r0, r1) <= EA)
    out = S.call(Netlist, tree)
    S.ensure("illformed.rejected_not_loaded[" + d + "]", snot(out.ok))
    S.ensure("illformed.rejection_is_a_clean_error[" + d + "]", out.ok or out.raised(AssertionError, TypeError, ValueError, KeyError, AttributeError))


@contract(P, functions=[N + "netlist.Netlist.__init__"], budget_s=600)
def wellformed_base_document_loads(S):
    """cover for the rejection contracts: the same document without any defect is accepted (for all values)"""
    mods = {"S": soft_module(S, "s", "two_regions", True, "scalar", 1, regions=("LUT",)), "H": hard_module(S, "h", 2, False),
            "F": hard_module(S, "f", 1, True), "T": terminal_module(S, "t", True), "Q": soft_module(S, "q", "scalar", True)}
    nets = [["S", "H", "T"], ["F", "Q", S.real("w", pos=True)]]
    E, EA = set_eps(S)
    stub_find_location(S, E, EA)
    r0, r1 = mods["H"]["rectangles"]
    S.assume(ovl_r(r0, r1) <= EA)
    out = S.call(Netlist, {"Modules": mods, "Nets": nets})
    S.ensure("wellformed.base_document_loads", out.ok)


@contract(P, canary=True)
def canary_area_is_always_one(S):
    out, E, EA = _load(S, {"Modules": {"M": soft_module(S, "m", "scalar", True)}})
    S.ensure("canary.area_one", seq(out.value.modules[0].area(), 1) if out.ok else False)


# ---- bounded leg: larger concrete documents (the symbolic templates stop at 5 modules / 3 rectangles / 4 pins) ------------------------

def _big_document(rng):
    """a well-formed document with 6-12 modules of every kind (up to 5 pairwise disjoint rectangles each) and 3-8 nets of 2-8 pins"""
    k = rng.randint(6, 12)
    mods = {}
    odd = rng.sample(["inf", "nan", "Infinity", "NaN", "e5", "True", "none", "_"], 2) if rng.random() < 0.4 else []
    for i in range(k):
        nm = odd.pop() if (odd and i >= k - 2) else f"M{i}"       # valid identifiers that a careless parser takes for numbers / constants
        kind = rng.choice(["soft", "soft_regions", "soft_rects", "hard", "fixed", "terminal", "fterminal", "flip"])
        x0, y0 = 10.0 * i, rng.choice([0.0, 3.5, 12.25])
        nr = rng.randint(1, 5)
        # a trunk with branches on top (disjoint by construction, different areas)
        rects = [[x0 + 3.0, y0 + 1.0, 6.0, 2.0]]
        for j in range(nr - 1):
            w, h = rng.choice([0.5, 1.0]), rng.choice([0.5, 1.0, 2.5])
            rects.append([x0 + 0.5 + 1.25 * j + w / 2, y0 + 2.0 + h / 2, w, h])
        if kind == "soft":
            mods[nm] = {"area": rng.choice([1, 2.5, 7]), "center": [x0, y0]}
            if rng.random() < 0.5:
                mods[nm]["aspect_ratio"] = rng.choice([2, [0.5, 3]])
        elif kind == "soft_regions":
            mods[nm] = {"area": {"LUT": rng.choice([1, 2.5]), "DSP": 0.5, "_": 3}}
        elif kind == "soft_rects":
            mods[nm] = {"area": rng.choice([20, 31.5]), "rectangles": [r + (["LUT"] if rng.random() < 0.3 else []) for r in rects]}
        elif kind in ("hard", "flip"):
            mods[nm] = {"hard": True, "rectangles": rects}
            if kind == "flip":
                mods[nm]["flip"] = True
        elif kind == "fixed":
            mods[nm] = {"fixed": True, "rectangles": rects}
        elif kind == "terminal":
            mods[nm] = {"terminal": True, "center": [x0, y0]}
        else:
            mods[nm] = {"terminal": True, "fixed": True, "center": [x0, y0]}
    names = list(mods)
    nets = []
    for _ in range(rng.randint(3, 8)):
        pins = rng.sample(names, rng.randint(2, min(8, k)))
        nets.append(pins + ([rng.choice([2, 0.5, 7])] if rng.random() < 0.5 else []))
    if rng.random() < 0.4:      # a bus: the same net several times (their wire lengths are equal numbers)
        nets += [list(nets[0]) for _ in range(rng.randint(1, 3))]
    for nm in names[-2:]:
        if not nm.startswith("M"):         # an oddly named module as the LAST pin of a net without weight
            nets.append(rng.sample([x for x in names if x != nm], rng.randint(1, 2)) + [nm])
    # the same design in micrometres written in metres, or in large units (after the open seed r8-C05-1: centres rounded to nine decimals)
    u = rng.choice([1, 1, 1, 1e-6, 1e3])
    if u != 1:
        for m in mods.values():
            if "rectangles" in m:
                m["rectangles"] = [[v * u for v in r[:4]] + r[4:] for r in m["rectangles"]]
            if "center" in m:
                m["center"] = [v * u for v in m["center"]]
            if "area" in m:
                m["area"] = {k_: v * u * u for k_, v in m["area"].items()} if isinstance(m["area"], dict) else m["area"] * u * u
    return {"Modules": mods, "Nets": nets}


def _inject(rng, doc):
    """one defect of a listed class at a random place of a well-formed document"""
    import copy
    d = copy.deepcopy(doc)
    names = list(d["Modules"])
    kinds = {n: ("terminal" if m.get("terminal") else "hard" if (m.get("hard") or m.get("fixed")) else "soft") for n, m in d["Modules"].items()}
    soft = [n for n in names if kinds[n] == "soft"]
    hard = [n for n in names if kinds[n] == "hard"]
    defect = rng.choice(["unknown_module_in_net", "weight_zero", "weight_negative", "one_pin_net", "area_nonpositive", "soft_without_area",
                         "hard_with_area", "hard_without_rectangles", "hard_overlapping_rectangles", "unknown_attribute", "rect_size_nonpositive",
                         "invalid_name"])
    if defect == "unknown_module_in_net":
        net = rng.choice(d["Nets"])
        net[rng.randrange(sum(isinstance(x, str) for x in net))] = "Nobody"
    elif defect in ("weight_zero", "weight_negative"):
        net = rng.choice(d["Nets"])
        w = 0 if defect == "weight_zero" else -1.5
        if isinstance(net[-1], str):
            net.append(w)
        else:
            net[-1] = w
    elif defect == "one_pin_net":
        d["Nets"].insert(rng.randrange(len(d["Nets"]) + 1), [rng.choice(names)] + ([3] if rng.random() < 0.5 else []))
    elif defect == "area_nonpositive" and soft:
        m = d["Modules"][rng.choice(soft)]
        if isinstance(m["area"], dict):
            m["area"][rng.choice(list(m["area"]))] = rng.choice([0, -1])
        else:
            m["area"] = rng.choice([0, -2])
    elif defect == "soft_without_area" and soft:
        del d["Modules"][rng.choice(soft)]["area"]
    elif defect == "hard_with_area" and hard:
        d["Modules"][rng.choice(hard)]["area"] = 4
    elif defect == "hard_without_rectangles" and hard:
        del d["Modules"][rng.choice(hard)]["rectangles"]
    elif defect == "hard_overlapping_rectangles" and [n for n in hard if len(d["Modules"][n]["rectangles"]) >= 2]:
        m = d["Modules"][rng.choice([n for n in hard if len(d["Modules"][n]["rectangles"]) >= 2])]
        rs = m["rectangles"]
        i, j = rng.sample(range(len(rs)), 2)
        if len(rs) >= 3 and rng.random() < 0.5:     # two BRANCHES overlap each other, both still sitting on the trunk (the module remains an orthogon)
            i, j = rng.sample(range(1, len(rs)), 2)
            rs[j] = [rs[i][0] + rs[i][2] / 4, rs[j][1], rs[j][2], rs[j][3]]
        else:
            rs[j] = [rs[i][0] + rs[i][2] / 4, rs[i][1] + rs[i][3] / 4, rs[j][2], rs[j][3]]      # rectangle j now overlaps rectangle i
    elif defect == "unknown_attribute":
        d["Modules"][rng.choice(names)]["colour"] = "red"
    elif defect == "rect_size_nonpositive" and [n for n in names if d["Modules"][n].get("rectangles")]:
        m = d["Modules"][rng.choice([n for n in names if d["Modules"][n].get("rectangles")])]
        m["rectangles"][rng.randrange(len(m["rectangles"]))][rng.choice([2, 3])] = rng.choice([0, -1])
    elif defect == "invalid_name":
        nm = rng.choice(names)
        bad = rng.choice(["9 lives", "bus[3]", "x^2", "a\\b", "^", "`q", "a b", "a-b", "m.1", "", "é", "[", "]", "a]"])
        d["Modules"] = {(bad if k == nm else k): v for k, v in d["Modules"].items()}
        d["Nets"] = [[x for x in net if x != nm] for net in d["Nets"]]
        d["Nets"] = [net for net in d["Nets"] if sum(isinstance(x, str) for x in net) >= 2]
    else:
        return None, None
    return defect, d


@contract(P, kind="enum", functions=[N + "netlist.Netlist.__init__", N + "module.Module.setup", N + "netlist_types.HyperEdge.wire_length",
                                     N + "netlist.Netlist._create_rectangles", N + "yaml_read_netlist.parse_yaml_netlist"],
          scope="bounded: concrete documents of 6-12 modules (up to 5 rectangles each) and 3-8 nets of 2-8 pins, each also with one injected defect",
          params=[dict(chunk=i) for i in range(8)])
def larger_documents(chunk, replay=None):
    import math
    import os
    import random
    tier = os.environ.get("VERIF_TIER", "quick")
    rng = random.Random(500 + chunk + 100 * int(os.environ.get("VERIF_SEED", "0") or 0))
    n_docs = 30 if tier != "thorough" else 500
    failures, evals, nontriv, samples, injected = [], 0, 0, [], {}
    for it in range(n_docs):
        doc = replay["doc"] if replay else _big_document(rng)
        expect_reject = bool(replay and replay.get("defect"))
        evals += 1
        Rectangle.undefine_epsilon()
        try:
            n = Netlist(doc)
            loaded = True
        except AssertionError as e:
            loaded, why = False, str(e)
        if expect_reject:
            if loaded:
                failures.append(dict(clause="big.ill_formed_design_rejected", defect=replay["defect"], doc=doc))
            break
        if not loaded:
            failures.append(dict(clause="big.well_formed_document_loads", doc=doc, observed=why))
            continue
        nontriv += 1
        cs = symx.ConcreteState({})
        mods = doc["Modules"]
        if [m.name for m in n.modules] != list(mods):
            failures.append(dict(clause="big.modules_in_document_order", doc=doc))
        for nm, info in mods.items():
            _check_module(cs, "big", n.get_module(nm), info)
        want_rects = sum(len(info.get("rectangles", [])) for info in mods.values())
        fixed_ids = {id(r) for nm, info in mods.items() if info.get("fixed") for r in n.get_module(nm).rectangles}
        if len(n.rectangles) != want_rects or {id(r) for r in n.fixed_rectangles()} != fixed_ids:
            cs.failed.append("big.rectangle_lists")
        tot = 0.0
        for e, net in zip(n.edges, doc["Nets"]):
            pins = [x for x in net if isinstance(x, str)]
            w = net[-1] if not isinstance(net[-1], str) else 1
            ctr = []
            for p in pins:
                c = spec_center(mods[p])
                ctr.append((float(c[0]), float(c[1])) if c is not None else None)
            if [m.name for m in e.modules] != pins or abs(e.weight - w) > 1e-12:
                cs.failed.append("big.net_members_and_weights")
            if all(c is not None for c in ctr):
                mx, my = sum(c[0] for c in ctr) / len(ctr), sum(c[1] for c in ctr) / len(ctr)
                exp = w * sum(math.hypot(c[0] - mx, c[1] - my) for c in ctr)
                tot += exp
                if abs(e.wire_length - exp) > 1e-9 * max(1.0, exp):
                    cs.failed.append("big.wire_length_is_weight_times_sum_of_distances_to_mean")
            else:
                tot = None
                break
        if tot is not None and len(n.edges) == len(doc["Nets"]) and abs(n.wire_length - tot) > 1e-9 * max(1.0, tot):
            cs.failed.append("big.netlist_wire_length_is_sum_over_nets")
        if len(n.edges) != len(doc["Nets"]):
            cs.failed.append("big.one_edge_per_net")
        for cl in sorted(set(cs.failed)):
            failures.append(dict(clause=cl, doc=doc))
        # one defect injected somewhere: rejected
        defect, bad = _inject(rng, doc)
        if it == 0 and chunk == 0 and not replay:
            # the recorded design of the known finding C05-overlap-in-small-units (reported on every run): a hard module, micrometres written in
            # metres, whose second rectangle overlaps a quarter of the first
            defect, bad = "hard_overlapping_rectangles", {"Modules": {"H": {"hard": True, "rectangles": [[3e-06, 4.5e-06, 6e-06, 2e-06], [4.5e-06, 5e-06, 1e-06, 2.5e-06]]},
                                                                      "S": {"area": 4e-12, "center": [1e-05, 1e-05]}}, "Nets": [["H", "S"]]}
        if defect:
            evals += 1
            injected[defect] = injected.get(defect, 0) + 1
            Rectangle.undefine_epsilon()
            coords = [abs(v) for m in bad["Modules"].values() if isinstance(m, dict) for r in (m.get("rectangles") or []) if isinstance(r, list) for v in r[:4] if isinstance(v, (int, float))]
            units = "micro" if coords and max(coords) < 1e-3 else "ordinary"
            try:
                Netlist(bad)
                failures.append(dict(clause="big.ill_formed_design_rejected", defect=defect, doc=bad, observed=f"accepted: {defect} in {units} units"))
            except (AssertionError, KeyError, TypeError, ValueError):
                pass
        if not samples:
            samples.append(dict(modules=len(mods), nets=len(doc["Nets"]), first=list(mods.items())[0]))
        if len([f_ for f_ in failures if 'accepted: hard_overlapping_rectangles in micro units' not in str(f_.get('observed', ''))]) >= 4 or replay:      # failures of the recorded known finding do not end the run early
            break
    Rectangle.undefine_epsilon()
    return dict(evaluations=evals, distinct_nontrivial=nontriv, exhaustive=False, failures=sorted(failures, key=lambda f_: 'accepted: hard_overlapping_rectangles in micro units' in str(f_.get('observed', '')))[:4] + [f_ for f_ in failures if 'accepted: hard_overlapping_rectangles in micro units' in str(f_.get('observed', ''))][:1],
                rule="random well-formed documents (6-12 modules: soft scalar / per-region / with rectangles in named regions, hard, flippable, fixed, "
                     "terminals; up to 5 pairwise disjoint rectangles of different areas; 3-8 nets of 2-8 pins, half of them weighted) loaded by the real "
                     "Netlist; every module against spec_area / spec_center / rectangle lists, every net against the wire-length definition; then one "
                     f"defect injected at a random place must be rejected; injected: {injected}", samples=samples, bound=f"{n_docs} documents per chunk")
