"""Per-property extras for the evidence (trusted base beyond the common one, explanation for level `other`)."""
PROPS = {
    "C01": dict(extra_trusted=["bounded leg: ruamel.yaml reads the text the harness writes; oracle in doubles with relative tolerance 1e-9",
                                "completeness of the greedy ground cover is NOT proved: bounded over lattice layouts"]),
    "C02": dict(extra_trusted=["list-summary combination rules (count, sums, hull, disjointness of concatenations) in contracts/alloc_common.py::Summary",
                                "FLATMAP loop shape (vf/loopshape.py) as side condition of the per-cell lifting"]),
    "C03": dict(extra_trusted=["Rectangle.area_overlap / find_location replaced by their C18 / C06 contracts inside module loading and per-cell runs",
                                "FLATMAP loop shape as side condition"]),
    "C04": dict(extra_trusted=["ruamel.yaml: a tree of dict/list/str/number/bool is read back unchanged (tuples as lists) -- assumed at tree level, exercised in the bounded text leg"]),
    "C05": dict(extra_trusted=["documents are templates over a finite set of names; find_location / overlap / create_stog replaced by their contracts where stated"]),
    "C06": dict(extra_trusted=["create_stog verified against the contract of find_location (stub = spec term discharged in the same run)"]),
    "C07": dict(extra_trusted=["pysat / Minisat22 as SAT oracle", "nothing beyond the stated bounds is proved for the CNF model sets"]),
    "C08": dict(extra_trusted=["pysat / Minisat22 as SAT oracle and model enumerator", "grids are full lattices",
                                "areas are integerised by the tool as int(factor * area), factor 10000 by default (option --sf): for lattices with cells below 0.01 square units the harness sets the factor a user would have to set (smallest cell = 100 units); with the default factor such lattices give all-zero areas and rect.solve divides by zero"]),
    "C09": dict(extra_trusted=["GEKKO only builds the model (nothing solved)", "z3 translation of ExpressionTree cross-validated against evaluate() on every run",
                                "instances (netlist constants) enumerated, configurations symbolic"]),
    "C10": dict(extra_trusted=["ASSUMED and unchecked: after solve every GEKKO/APOPT variable is within its bounds and every equation holds",
                                "Die._netlist set through a private attribute in the harness"]),
    "C11": dict(extra_trusted=["the worklist loops of split_rectangles are covered by step lemmas + bounded unrollings, not by mechanical induction"]),
    "C12": dict(extra_trusted=["QUANT / FLATMAP shapes as side conditions; Summary combination rules"]),
    "C13": dict(extra_trusted=["loop-cut rewrite of fruchterman_reingold_layout (printed in the evidence: one inserted statement)",
                                "deepcopy / layout / overlap replaced by recorders in the force_algorithm contract"]),
    "C14": dict(extra_trusted=["loop-cut rewrite of spectral_layout_die (power iteration cut to one arbitrary iteration, loop over the dimensions restricted to one chosen iteration; printed in the evidence)",
                                "inside the loop-cut runs normalize is replaced by its contract (discharged on the real function by the leaf task of the same run)",
                                "random.uniform(a, b) returns some value in [a, b]",
                                "NOT proved: absence of degenerate arithmetic (ZeroDivisionError / ValueError allowed by the contracts); rounding; bounded float leg only"]),
    "C15": dict(extra_trusted=["brute-force oracles written for this check (decomposability, polygon tracing)"]),
    "C16": dict(extra_trusted=["operands in normal form with symbolic positive coefficients over an enumerated variable structure"]),
    "C17": dict(extra_trusted=["acos/sin uninterpreted with range and sin(acos x)=sqrt(1-x^2) axioms", "delta-mode: IEEE-754 standard model without under/overflow",
                                "mpmath (40 digits) as oracle of the bounded float leg"]),
    "C18": dict(extra_trusted=["range-loop cut of rectangle_grid (printed in the evidence)"]),
    "C19": dict(extra_trusted=["ruamel.yaml", "numpy arrays synthesised for the FloorSet converter"],
                explanation="Deductive tree-level round trips for the die and allocation writers (all numbers symbolic, written tree re-read by the "
                            "real reader, producer called twice, argument state compared); bounded run-time contracts for generators, FloorSet "
                            "converter and the string-built netlists of rect / legalfloor through the real text layer; static mutation analysis "
                            "of 13 producers with dynamic confirmation of candidates."),
    "C20": dict(extra_trusted=["fresh interpreters are subprocesses of the check", "histories are seeded random sequences over 8 kinds of operations"],
                explanation="History dependence can only enter through process-wide state: that state is inventoried from the AST on every run; the "
                            "class-wide tolerances are shown not to change any answer by relational obligations (the same real function under two "
                            "arbitrary tolerance settings, separation precondition); the ROBDD store, legaliser registers and mutable defaults by "
                            "invariants / AST checks; and six probed operations are compared between a fresh interpreter and seeded random histories."),
}
