PROPS = {}
