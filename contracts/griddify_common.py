"""Lattice templates for Allocation.griddify (C02, C12): <= 3 cells on a lattice whose coordinates are symbolic and
strictly increasing (fixes the order type, keeps every coordinate value symbolic)."""
from .alloc_common import *  # noqa
from frame.geometry.geometry import Point, Shape

# index rectangles (i0, i1, j0, j1) over X[0..], Y[0..]
TEMPLATES = {
    "two_side_by_side_T": (3, 3, [(0, 1, 0, 2), (1, 2, 0, 1)]),            # different heights: T-junction
    "two_stacked_T": (3, 3, [(0, 2, 0, 1), (0, 1, 1, 2)]),
    "row_of_3": (4, 2, [(0, 1, 0, 1), (1, 2, 0, 1), (2, 3, 0, 1)]),          # more x- than y-boundaries
    "column_of_3": (2, 4, [(0, 1, 0, 1), (0, 1, 1, 2), (0, 1, 2, 3)]),       # more y- than x-boundaries
    "wide_under_two": (3, 3, [(0, 2, 0, 1), (0, 1, 1, 2), (1, 2, 1, 2)]),
    "tall_beside_two": (3, 3, [(0, 1, 0, 2), (1, 2, 0, 1), (1, 2, 1, 2)]),
    "staircase": (4, 4, [(0, 1, 0, 3), (1, 2, 0, 2), (2, 3, 0, 1)]),
    "offset_pair": (4, 3, [(0, 2, 0, 1), (1, 3, 1, 2)]),
    "single": (2, 2, [(0, 1, 0, 1)]),
    "big_crossed_both_ways": (4, 4, [(0, 2, 0, 2), (2, 3, 0, 1), (0, 1, 2, 3)]),   # one cell crossed by an x-line AND a y-line
    "tall_beside_two_apart": (3, 4, [(0, 1, 0, 3), (1, 2, 0, 1), (1, 2, 2, 3)]),   # fewer x- than y-boundaries, crossing
    "wide_over_two_apart": (4, 3, [(0, 3, 0, 1), (0, 1, 1, 2), (2, 3, 1, 2)]),     # more x- than y-boundaries, crossing
}
QUICK = ["single", "two_side_by_side_T", "two_stacked_T", "row_of_3", "column_of_3", "wide_under_two",
         "tall_beside_two_apart", "wide_over_two_apart", "big_crossed_both_ways"]


def lattice(S, nx, ny, E):
    X = [S.real(f"X{i}") for i in range(nx)]
    Y = [S.real(f"Y{i}") for i in range(ny)]
    S.assume(sand(X[0] >= 0, Y[0] >= 0))
    for i in range(nx - 1):
        S.assume(X[i + 1] - X[i] > 2 * E)       # distinct boundary lines are separated by more than the tolerance
    for i in range(ny - 1):
        S.assume(Y[i + 1] - Y[i] > 2 * E)
    return X, Y


def lattice_cells(S, tmpl, X, Y, k_ratios, fixed_idx):
    nx, ny, idx = TEMPLATES[tmpl]
    cells = []
    for n, (i0, i1, j0, j1) in enumerate(idx):
        w, h = X[i1] - X[i0], Y[j1] - Y[j0]
        kw = dict(center=Point((X[i0] + X[i1]) / 2, (Y[j0] + Y[j1]) / 2), shape=Shape(w, h))
        if n == fixed_idx:
            kw["fixed"] = True
        r = Rectangle(**kw)
        alloc = {}
        if n == fixed_idx:
            alloc = {"F": 1.0}
        else:
            for m in range(k_ratios):
                v = S.real(f"c{n}a{m}")
                S.assume(sand(v >= 0, v <= 1))
                alloc[MODS[m]] = v
        d = S.int(f"c{n}d", lo=0)
        cells.append((r, alloc, d))
    return cells
