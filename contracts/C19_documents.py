"""C19 -- every document FRAME produces is accepted back and says the same thing; producing never alters the object."""
import ast
import contextlib
import copy
import inspect
import io
import os
import random
import textwrap
import types

from vf import core, symx
from vf.core import contract
from .netlist_common import *  # noqa
from .alloc_common import Allocation, RectAlloc, amod, mk_cell, bare_allocation
from .C11_die_refine import bare_die
import frame.die.die as diemod
import frame.die.yaml_parse_die as ypd
from frame.utils.utils import write_yaml
from frame.netlist.netlist_types import NamedHyperEdge
import tools.netgen.netgen as netgen
import tools.rect.rect_io as rio

P = "C19"


def normalise(tree):
    """the text layer (assumed contract of ruamel.yaml): tuples come back as lists"""
    if isinstance(tree, dict):
        return {k: normalise(v) for k, v in tree.items()}
    if isinstance(tree, (list, tuple)):
        return [normalise(v) for v in tree]
    return tree


# ---- die and allocation writers: tree-level round trip, all numbers symbolic ------------------------------------------------

@contract(P, functions=["frame.die.die.Die.write_yaml", "frame.die.yaml_parse_die.parse_yaml_die", "frame.geometry.geometry.Rectangle.vector_spec"],
          params=[dict(nb=a, ns=b) for a in (0, 1, 2) for b in (0, 1, 2) if a + b <= 3])
def die_document_roundtrip(S, nb, ns):
    W, H = S.real("W", pos=True), S.real("H", pos=True)
    blk = [mk_rect(S, f"b{i}", "#") for i in range(nb)]
    spc = [mk_rect(S, f"s{i}", ["LUT", "DSP"][i]) for i in range(ns)]
    for r in blk + spc:
        S.assume(sand(r.center.x >= 0, r.center.y >= 0))
    d = bare_die(S, W, H, spc, [mk_rect(S, "g")], blk, [])
    captured = []
    S.patch(diemod, "write_yaml", lambda data, filename=None: captured.append(data) or "captured")
    snap = [(r, r.center.x, r.center.y, r.shape.w, r.shape.h, r.region) for r in blk + spc]
    o1 = S.call(d.write_yaml)
    o2 = S.call(d.write_yaml)
    S.ensure("die.write_succeeds_twice", o1.ok and o2.ok and len(captured) == 2)
    if len(captured) != 2:
        return
    from .C04_roundtrip import tree_eq
    t1, t2 = normalise(captured[0]), normalise(captured[1])
    S.ensure("die.writing_twice_gives_identical_documents", tree_eq(t1, t2))
    S.ensure("die.writing_does_not_alter_the_die",
             len(d.blockages) == nb and len(d.specialized_regions) == ns and all(a is b for a, b in zip(d.blockages + d.specialized_regions, blk + spc))
             and sand(*[sand(seq(r.center.x, x), seq(r.center.y, y), seq(r.shape.w, w), seq(r.shape.h, h), r.region == rg) for r, x, y, w, h, rg in snap]))
    back = S.call(ypd.parse_yaml_die, t1)
    S.ensure("die.document_accepted_by_the_reader", back.ok)
    if not back.ok:
        return
    die_r, regs = back.value
    S.ensure("die.same_size", sand(seq(die_r.shape.w, W), seq(die_r.shape.h, H)))
    want = blk + spc

    def same(a, b):
        return sand(seq(a.center.x, b.center.x), seq(a.center.y, b.center.y), seq(a.shape.w, b.shape.w), seq(a.shape.h, b.shape.h), a.region == b.region)
    S.ensure("die.same_blockages_and_specialised_regions", len(regs) == len(want) and sand(*[same(a, b) for a, b in zip(regs, want)]))


@contract(P, functions=["frame.allocation.allocation.Allocation.write_yaml", "frame.allocation.allocation.Allocation.__init__",
                        "frame.allocation.allocation.Allocation._parse_yaml_tree"],
          params=[dict(k0=a, k1=b, reg=r) for a in (0, 1, 2) for b in (1, 2) for r in ("_", "LUT")], budget_s=600)
def allocation_document_roundtrip(S, k0, k1, reg):
    E, EA = set_eps(S)
    c0, c1 = mk_cell(S, "c", k0, False, reg), mk_cell(S, "o", k1)
    depth0 = S.choice("depth0", [0, 2])          # depth 0 is omitted by the writer
    c0 = (c0[0], c0[1], depth0)
    for c in (c0, c1):
        b = specs.box(c[0])
        S.assume(sand(b[0] >= 0, b[1] >= 0))
    S.assume(specs.ovl(c0[0], c1[0]) <= EA)
    # every module has a non-zero area somewhere (otherwise no allocation object exists: the constructor divides by it)
    mods = sorted(set(c0[1]) | set(c1[1]))
    for m in mods:
        S.assume(sum(c[1].get(m, 0) * c[0].shape.w * c[0].shape.h for c in (c0, c1)) > 0)
    a = bare_allocation([c0, c1])
    captured = []
    S.patch(amod, "write_yaml", lambda data, filename=None: captured.append(data) or "captured")
    o1, o2 = S.call(a.write_yaml), S.call(a.write_yaml)
    S.ensure("allocation.write_succeeds_twice", o1.ok and o2.ok and len(captured) == 2)
    if len(captured) != 2:
        return
    from .C04_roundtrip import tree_eq
    t1, t2 = normalise(captured[0]), normalise(captured[1])
    S.ensure("allocation.writing_twice_gives_identical_documents", tree_eq(t1, t2))
    S.ensure("allocation.writing_does_not_alter_the_allocation",
             len(a.allocations) == 2 and a.allocations[0].rect is c0[0] and a.allocations[0].alloc is c0[1] and len(c0[1]) == k0 and len(c1[1]) == k1)
    S.cleanup()      # restore the real write_yaml / tolerances before reading back
    E2, EA2 = set_eps2(S, E, EA)
    back = S.call(Allocation, t1)
    S.ensure("allocation.document_accepted_by_the_reader", back.ok)
    if not back.ok:
        return
    b = back.value
    conds = [b.num_rectangles == 2]
    for x, c in zip(b.allocations, (c0, c1)):
        conds.append(sand(seq(x.rect.center.x, c[0].center.x), seq(x.rect.center.y, c[0].center.y), seq(x.rect.shape.w, c[0].shape.w),
                          seq(x.rect.shape.h, c[0].shape.h), x.rect.region == c[0].region))
        conds.append(list(x.alloc.keys()) == list(c[1].keys()) and sand(*[seq(x.alloc[m], c[1][m]) for m in c[1]]))
        conds.append(seq(x.depth, c[2]))
    S.ensure("allocation.same_cells_ratios_and_depths", sand(*conds))


def set_eps2(S, E, EA):
    S.patch(Rectangle, "_distance_epsilon", E)
    S.patch(Rectangle, "_area_epsilon", EA)
    return E, EA


# ---- purity of the producers: static candidates + dynamic confirmation --------------------------------------------------------

MUTATORS = {"append", "extend", "insert", "pop", "remove", "clear", "sort", "reverse", "update", "setdefault", "popitem", "add", "discard"}


def mutation_candidates(fn):
    """statements of fn that may mutate an object reachable from its parameters: a mutator call / augmented assignment /
    subscript or attribute store whose base name is a parameter or an alias of something read from a parameter"""
    src = textwrap.dedent(inspect.getsource(fn))
    f = ast.parse(src).body[0]
    params = {a.arg for a in f.args.args + f.args.kwonlyargs}
    tainted = set(params)
    fresh = set()
    out = []

    def base(n):
        while isinstance(n, (ast.Attribute, ast.Subscript)):
            n = n.value
        return n.id if isinstance(n, ast.Name) else None

    def is_fresh(v):
        return isinstance(v, (ast.List, ast.Dict, ast.Set, ast.ListComp, ast.DictComp, ast.SetComp, ast.Constant, ast.JoinedStr, ast.BinOp, ast.Tuple)) or \
            (isinstance(v, ast.Call) and isinstance(v.func, ast.Name) and v.func.id in ("list", "dict", "set", "str", "sorted", "map", "tuple"))
    for node in ast.walk(f):
        if isinstance(node, ast.Assign) and len(node.targets) == 1 and isinstance(node.targets[0], ast.Name):
            nm = node.targets[0].id
            if is_fresh(node.value):
                fresh.add(nm)
            elif base(node.value) in tainted or (isinstance(node.value, ast.Name) and node.value.id in tainted):
                tainted.add(nm)
        if isinstance(node, ast.AnnAssign) and isinstance(node.target, ast.Name) and node.value is not None:
            if is_fresh(node.value):
                fresh.add(node.target.id)
            elif base(node.value) in tainted:
                tainted.add(node.target.id)
        if isinstance(node, ast.For):
            for t in ast.walk(node.target):
                if isinstance(t, ast.Name) and base(node.iter) in tainted:
                    tainted.add(t.id)
    tainted -= (fresh - params)
    for node in ast.walk(f):
        if isinstance(node, ast.Call) and isinstance(node.func, ast.Attribute) and node.func.attr in MUTATORS and base(node.func.value) in tainted:
            out.append(ast.unparse(node)[:120])
        if isinstance(node, ast.AugAssign) and base(node.target) in tainted and not isinstance(node.target, ast.Name):
            out.append(ast.unparse(node)[:120])
        if isinstance(node, ast.AugAssign) and isinstance(node.target, ast.Name) and node.target.id in tainted and node.target.id not in params:
            out.append(ast.unparse(node)[:120] + "   # in-place on an alias")
        if isinstance(node, ast.Assign):
            for t in node.targets:
                if isinstance(t, (ast.Subscript, ast.Attribute)) and base(t) in tainted and base(t) != "self":
                    out.append(ast.unparse(node)[:120])
    return out


def deep_state(obj, depth=0, seen=None):
    """structural snapshot of an object graph (for 'producing a document does not alter the object')"""
    seen = seen if seen is not None else set()
    if id(obj) in seen or depth > 8:
        return "<cycle>"
    if isinstance(obj, (int, float, str, bool, type(None))):
        return obj
    seen = seen | {id(obj)}
    if isinstance(obj, (list, tuple)):
        return [deep_state(x, depth + 1, seen) for x in obj]
    if isinstance(obj, dict):
        return {str(k): deep_state(v, depth + 1, seen) for k, v in obj.items()}
    if hasattr(obj, "__dict__"):
        return {k: deep_state(v, depth + 1, seen) for k, v in vars(obj).items() if k not in ("_total_area", "_area_rectangles", "_rectangles", "_netlist")}
    return repr(obj)


def _fs_instance(rng, terminals_as_modules, density):
    import numpy as np
    from tools.floorset_parser.floor_set_manager.manager import FloorSetInstance
    W = 12.0
    # blocks: rectangles and L / T shapes given by their vertices (closed lists, padded with -1)
    shapes = [[(0, 0), (4, 0), (4, 3), (0, 3)], [(5, 0), (9, 0), (9, 2), (7, 2), (7, 4), (5, 4)], [(0, 5), (3, 5), (3, 6), (2, 6), (2, 8), (1, 8), (1, 6), (0, 6)],
              [(6, 6), (10, 6), (10, 10), (6, 10)]]
    if rng.random() < 0.5:
        # one-decimal coordinates (not representable in binary): facing sides of the decomposed rectangles differ by rounding noise
        f = rng.choice([0.1, 0.3, 0.7])
        shapes = [[(round(x * f + 0.1, 10), round(y * f + 0.2, 10)) for (x, y) in sh] for sh in shapes]
        W = round(12.0 * f + 0.4, 10)
    k = rng.randint(2, 4)
    maxv = 10
    vb = -np.ones((k, maxv, 2))
    areas = np.zeros(k)
    for i in range(k):
        pts = shapes[i] + [shapes[i][0]]
        vb[i, :len(pts), :] = np.array(pts, dtype=float)
        areas[i] = abs(sum(pts[j][0] * pts[j + 1][1] - pts[j + 1][0] * pts[j][1] for j in range(len(pts) - 1))) / 2
    cons = np.zeros((k, 5))
    for i in range(k):
        c = rng.choice(["soft", "soft", "hard", "fixed"])
        cons[i, 0] = 1 if c == "hard" else 0
        cons[i, 1] = 1 if c == "fixed" else 0
    pins = np.array([[0.0, W / 6], [W, W / 2.4], [W / 4, 0.0], [W / 2, W], [W / 3, W / 1.7]][:rng.randint(2, 5)])
    b2b = np.array([[0, 1, rng.choice([1, 2, 0.5])]] + ([[1, k - 1, 3]] if k > 2 else []), dtype=float)
    p2b = np.array([[i, rng.randrange(k), rng.choice([1, 2])] for i in range(len(pins))], dtype=float)
    data = dict(area_blocks=areas, b2b_connectivity=b2b, p2b_connectivity=p2b, pins_pos=pins, placement_constraints=cons, vertex_blocks=vb,
                b_tree=np.zeros((1,)), metrics=np.array([k, len(pins), 0, 0, 0, 0, 0, 0], dtype=float))
    return FloorSetInstance(data, density, terminals_as_modules), dict(k=k, pins=len(pins), cons=cons.tolist(), areas=areas.tolist(), b2b=b2b.tolist(), p2b=p2b.tolist())


def _net_snapshot(n):
    return ([(m.name, m.is_soft, m.is_hard, m.is_fixed, m.is_terminal, round(m.area(), 9), None if m.center is None else (round(m.center.x, 9), round(m.center.y, 9)),
              sorted((round(r.center.x, 9), round(r.center.y, 9), round(r.shape.w, 9), round(r.shape.h, 9)) for r in m.rectangles)) for m in n.modules],
            [([m.name for m in e.modules], round(e.weight, 12)) for e in n.edges])


def _generator_spec(kind, args, doc):
    """independent definition of each topology (added after seed C19-5: the reader was only compared with the generator's own
    dictionary, so a generator that builds the wrong design went unnoticed): names, one attribute dictionary per module, areas,
    lattice centres of grids, and the net set"""
    mods, nets = doc["Modules"], doc["Nets"]
    area = args[-1]
    if len({id(v) for v in mods.values()}) != len(mods):
        return "two modules share one attribute dictionary"
    if any(v.get("area") != area for v in mods.values()):
        return "a module does not have the requested area"
    pins = [frozenset(x for x in e if isinstance(x, str)) for e in nets]
    M = lambda *i: "M" + "_".join(str(k) for k in i)       # noqa
    if kind in ("grid", "grid+centers"):
        r, c = args[0], args[1]
        if list(mods) != [M(i, j) for i in range(r) for j in range(c)]:
            return "module names are not the lattice positions in row-major order"
        want = [frozenset((M(i, j), M(i, j + 1))) for i in range(r) for j in range(c - 1)] + [frozenset((M(i, j), M(i + 1, j))) for i in range(r - 1) for j in range(c)]
        if sorted(map(sorted, pins)) != sorted(map(sorted, want)):
            return "nets are not the horizontal and vertical neighbour pairs"
        if kind == "grid+centers":
            W, H = 10.0, 8.0
            for i in range(r):
                for j in range(c):
                    ctr = mods[M(i, j)].get("center")
                    if ctr is None or abs(ctr[0] - (0.5 + j) * W / c) > 1e-9 or abs(ctr[1] - (0.5 + i) * H / r) > 1e-9:
                        return f"centre of {M(i, j)} is {ctr}, not its lattice position"
        elif any("center" in v for v in mods.values()):
            return "centres although none were requested"
        return None
    if kind == "htree":
        def count(lv):
            return (1, 0) if lv == 1 else (3 + 4 * count(lv - 1)[0], 10 + 4 * count(lv - 1)[1])
        nm, ne = count(args[0])
        if len(mods) != nm or len(nets) != ne or list(mods) != [M(i) for i in range(nm)] and set(mods) != {M(i) for i in range(nm)}:
            return f"h-tree of {args[0]} levels must have {nm} modules and {ne} nets, has {len(mods)} and {len(nets)}"
        return None
    n = args[0]
    if list(mods) != [M(i) for i in range(n)]:
        return "module names are not M0..M(n-1)"
    want = {"chain": [frozenset((M(i), M(i + 1))) for i in range(n - 1)],
            "ring": [frozenset((M(i), M((i + 1) % n))) for i in range(n)],
            "star": [frozenset((M(0), M(i))) for i in range(1, n)],
            "one-net": [frozenset(M(i) for i in range(n))],
            "ring-star": [frozenset((M(i), M(i + 1))) for i in range(1, n - 1)] + [frozenset((M(n - 1), M(1)))] + [frozenset((M(0), M(i))) for i in range(1, n)]}[kind]
    if sorted(map(sorted, pins)) != sorted(map(sorted, want)):
        return "nets are not those of the topology"
    return None


@contract(P, kind="enum", functions=["tools.netgen.netgen.gen_grid", "tools.netgen.netgen.gen_chain", "tools.netgen.netgen.gen_ring", "tools.netgen.netgen.gen_star",
                                     "tools.netgen.netgen.gen_ring_star", "tools.netgen.netgen.gen_one_net", "tools.netgen.netgen.gen_htree"],
          scope="bounded: every topology at every size 1..12 (40 thorough), h-tree levels 1..4, grids up to 5x5")
def generated_netlists_are_accepted_and_equal(replay=None):
    tier = os.environ.get("VERIF_TIER", "quick")
    N = 12 if tier != "thorough" else 40
    failures, evals, nontriv, samples = [], 0, 0, []
    cases = []
    for n in range(1, N + 1):
        cases += [("chain", netgen.gen_chain, (n, 2.5)), ("star", netgen.gen_star, (n, 2.5)), ("ring", netgen.gen_ring, (n, 2.5))]
        if n >= 2:      # a net needs two pins: the one-net and ring-star topologies are defined from 2 modules on
            cases += [("one-net", netgen.gen_one_net, (n, 2.5)), ("ring-star", netgen.gen_ring_star, (n, 2.5))]
    for lv in range(1, 5 if tier != "thorough" else 6):
        cases.append(("htree", netgen.gen_htree, (lv, 1.5)))
    for r in range(1, 6):
        for c in range(1, 6):
            cases.append(("grid", netgen.gen_grid, (r, c, 3.0)))
            if r <= 3 and c <= 3:
                cases.append(("grid+centers", lambda r_, c_, a_: netgen.gen_grid(r_, c_, a_, True, 0.0, Shape(10.0, 8.0)), (r, c, 3.0)))
    for kind, fn, args in cases:
        evals += 1
        try:
            doc = fn(*args)
            doc2 = fn(*args)
        except Exception as e:  # noqa
            failures.append(dict(clause="generator_does_not_crash", topology=kind, args=args, observed=f"{type(e).__name__}: {e}"))
            continue
        txt = write_yaml(doc)
        if txt != write_yaml(doc2):
            failures.append(dict(clause="generating_twice_gives_identical_documents", topology=kind, args=args))
        bad = _generator_spec(kind, args, doc)
        if bad:
            failures.append(dict(clause="generated_design_is_the_requested_topology", topology=kind, args=args, observed=bad))
        Rectangle.undefine_epsilon()
        try:
            n = Netlist(txt)
        except Exception as e:  # noqa
            failures.append(dict(clause="generated_document_accepted_by_the_reader", topology=kind, args=args, observed=f"{type(e).__name__}: {e}", text=txt[:300]))
            continue
        nontriv += 1
        mods = doc["Modules"]
        ok = [m.name for m in n.modules] == list(mods) and all(abs(m.area() - mods[m.name]["area"]) < 1e-12 and m.is_soft for m in n.modules)
        ok = ok and all((m.center is None) == ("center" not in mods[m.name]) and
                        (m.center is None or (m.center.x, m.center.y) == tuple(mods[m.name]["center"])) for m in n.modules)
        want_nets = [([x for x in e if isinstance(x, str)], float(e[-1]) if not isinstance(e[-1], str) else 1.0) for e in doc["Nets"]]
        got_nets = [([m.name for m in e.modules], e.weight) for e in n.edges]
        if not ok or want_nets != got_nets:
            failures.append(dict(clause="reloaded_netlist_is_the_generated_design", topology=kind, args=args, want_nets=want_nets[:3], got_nets=got_nets[:3]))
        if len(samples) < 2 and kind == "htree":
            samples.append(dict(topology=kind, args=args, modules=len(mods), nets=len(doc["Nets"])))
    Rectangle.undefine_epsilon()
    return dict(evaluations=evals, distinct_nontrivial=nontriv, exhaustive=True, failures=failures[:5],
                rule="each generator at each size (chain, star, ring from 1; one-net, ring-star from 2 since a net needs two pins; h-tree by level; "
                     "grids with and without centres) -> YAML text -> Netlist(text): same module names, areas, centres, nets and weights",
                samples=samples or [dict(topology="chain")], bound=f"sizes <= {N}")


@contract(P, kind="enum", functions=["tools.floorset_parser.floor_set_manager.manager.FloorSetInstance.__init__",
                                     "tools.floorset_parser.floor_set_manager.manager.FloorSetInstance.write_yaml_FPEF",
                                     "tools.floorset_parser.floor_set_manager.manager.FloorSetInstance.write_yaml_DIEF",
                                     "frame.netlist.yaml_write_netlist.dump_yaml_namededges"],
          scope="bounded: synthetic FloorSet instances (2-4 polygonal blocks, border and interior pins, both terminal modes, density on/off)")
def floorset_documents(replay=None):
    from frame.die.die import Die
    rng = random.Random(11 + int(os.environ.get("VERIF_SEED", "0") or 0))
    tier = os.environ.get("VERIF_TIER", "quick")
    failures, evals, nontriv, samples = [], 0, 0, []
    for it in range(40 if tier != "thorough" else 600):
        tam = bool(it % 2)
        dens = None if it % 3 else 0.5
        evals += 1
        try:
            inst, desc = _fs_instance(rng, tam, dens)
        except Exception as e:  # noqa
            failures.append(dict(clause="converter_handles_the_instance", terminals_as_modules=tam, observed=f"{type(e).__name__}: {e}"))
            continue
        before = deep_state(inst)
        t1 = inst.write_yaml_FPEF()
        t2 = inst.write_yaml_FPEF()
        d1, d2 = inst.write_yaml_DIEF(), inst.write_yaml_DIEF()
        if t1 != t2 or d1 != d2:
            failures.append(dict(clause="producing_twice_gives_identical_documents", terminals_as_modules=tam, first=t1[-200:], second=t2[-200:]))
        if deep_state(inst) != before:
            failures.append(dict(clause="producing_a_document_does_not_alter_the_object", terminals_as_modules=tam))
        Rectangle.undefine_epsilon()
        try:
            n = Netlist(t1)
            die = Die(d1)
        except Exception as e:  # noqa
            failures.append(dict(clause="documents_accepted_by_the_readers", terminals_as_modules=tam, observed=f"{type(e).__name__}: {e}"))
            continue
        nontriv += 1
        # same design: kinds, areas / shapes of the blocks, nets and weights
        ok = True
        for i in range(desc["k"]):
            m = n.get_module(f"M{i}")
            fixed, hard = bool(desc["cons"][i][1]), bool(desc["cons"][i][0]) and not bool(desc["cons"][i][1])
            ok = ok and m.is_fixed == fixed and (m.is_hard and not m.is_fixed) == hard
            ok = ok and abs(sum(r.area for r in m.rectangles) - desc["areas"][i]) < 1e-9 and abs(m.area() - desc["areas"][i]) < 1e-9
        nets = [(e.modules, e.weight) for e in inst.nets]
        got = [([m.name for m in e.modules], e.weight) for e in n.edges]
        # counts from the instance DESCRIPTION, not from the converter's own state (added after seed C19-10: class-level containers shared by
        # every instance of a process made later documents carry the modules and nets of earlier ones)
        blocks = [m.name for m in n.modules if m.name.startswith("M")]
        if sorted(blocks) != sorted(f"M{i}" for i in range(desc["k"])) or len(n.modules) > desc["k"] + desc["pins"]:
            ok = False          # exactly the blocks of this instance, at most one more module per pin
        if len(got) > len(desc["b2b"]) + len(desc["p2b"]) or len(got) < len(desc["b2b"]):
            ok = False          # one net per block-to-block connection, at most one more per pin connection
        if not ok or got != nets or (die.width, die.height) != inst.shape:
            failures.append(dict(clause="reloaded_design_is_the_converted_one", terminals_as_modules=tam, nets=nets[:2], got=got[:2]))
        if len(samples) < 1:
            samples.append(dict(desc=desc, fpef=t1[:400]))
        if len(failures) >= 6:
            break
    Rectangle.undefine_epsilon()
    return dict(evaluations=evals, distinct_nontrivial=nontriv, exhaustive=False, failures=failures[:6],
                rule="synthetic FloorSet instances: 2-4 blocks (rectangle, L, T shapes by vertex list; soft / hard / pre-placed), 2-5 pins on the die "
                     "border and inside, block-to-block and pin-to-block nets; terminals as terminals and as modules; with and without density; "
                     "FPEF/DIEF documents written twice, read by Netlist / Die and compared", samples=samples or [1], bound="40 / 600 instances")


@contract(P, kind="enum", functions=["tools.rect.rect_io.solution_to_netlist", "tools.rect.rect_io.get_netlist", "tools.legalfloor.legalfloor.Model.get_netlist",
                                     "frame.netlist.netlist.Netlist.write_yaml", "frame.die.die.Die.write_yaml", "frame.allocation.allocation.Allocation.write_yaml"],
          scope="bounded: concrete designs through the string-building producers of rect and legalfloor and the text layer of the die / allocation / netlist writers")
def stage_outputs_and_text_layer(replay=None):
    from frame.die.die import Die
    failures, evals, nontriv, samples = [], 0, 0, []
    # -- rect: solution_to_netlist / get_netlist
    base = "Modules: {A: {area: 6, center: [2, 2]}, B: {area: 4, center: [5.5, 2.5], rectangles: [[5.5, 2.5, 2, 2]]}, H: {hard: true, rectangles: [[2, 6, 2, 2]]}, F: {fixed: true, rectangles: [[7, 7, 2, 2]]}}\nNets: [[A, B, 2.5], [A, H, F], [B, F, 1]]"
    Rectangle.undefine_epsilon()
    n0 = Netlist(base)
    st0 = deep_state(n0)
    # solutions with few decimals, with thirds / sevenths / eight decimals, and with a large coordinate carrying sub-unit detail (after the open seed
    # r8-C19-1: coordinates written with six decimals)
    for res in [{"A": [(2.0, 2.0, 3.0, 2.0)], "B": [(5.5, 2.5, 2.0, 1.0), (5.5, 3.5, 1.0, 1.0)]},
                {"A": [(7 / 3, 2.0, 10 / 3, 1.23456789)], "B": [(5.5, 2.5, 2.0, 1.0), (5.5, 3.0 + 1 / 7, 1.0, 2 / 7)]},
                {"A": [(2000000.0000005, 2.0, 3.0, 2.0)], "B": [(5.5, 2.5, 2.0, 1.0), (5.5, 3.5, 1.0, 1.0)]}]:
        t1 = rio.solution_to_netlist(n0, res)
        t2 = rio.solution_to_netlist(n0, res)
        evals += 1
        if t1 != t2 or deep_state(n0) != st0:
            failures.append(dict(clause="rect.producing_twice_identical_and_object_unaltered"))
        try:
            Rectangle.undefine_epsilon()
            n1 = Netlist(t1)
            nontriv += 1
            want = [([m.name for m in e.modules], e.weight) for e in n0.edges]
            got = [([m.name for m in e.modules], e.weight) for e in n1.edges]
            if got != want:
                failures.append(dict(clause="rect.same_nets_and_weights", want=want, got=got))
            kinds = [(m.name, m.is_soft, m.is_fixed, m.is_hard, None if m.is_hard else m.area()) for m in n0.modules]
            if kinds != [(m.name, m.is_soft, m.is_fixed, m.is_hard, None if m.is_hard else m.area()) for m in n1.modules]:
                failures.append(dict(clause="rect.same_modules_and_kinds"))
            shapes = {m.name: sorted((r.center.x, r.center.y, r.shape.w, r.shape.h) for r in m.rectangles) for m in n1.modules}
            if shapes["A"] != sorted(res["A"]) or shapes["B"] != sorted(res["B"]) or shapes["H"] != [(2.0, 6.0, 2.0, 2.0)]:
                failures.append(dict(clause="rect.same_shapes", shapes=shapes))
        except Exception as e:  # noqa
            failures.append(dict(clause="rect.document_accepted_by_the_reader", observed=f"{type(e).__name__}: {e}", text=t1[:400]))
    # rect_io.get_netlist(None, allocation): netlist derived from an allocation
    alloc_txt = "[[[1, 1, 2, 2], {A: 0.5, B: 0.25}], [[3, 1, 2, 2], {A: 1.0}], [[1, 3, 2, 2], {B: 0.5}]]"
    evals += 1
    try:
        Rectangle.undefine_epsilon()
        nl = rio.get_netlist(None, alloc_txt)
        al = Allocation(alloc_txt)
        nontriv += 1
        for m in nl.modules:
            if abs(m.area() - al.area(m.name)) > 1e-9 or abs(m.center.x - al.center(m.name).x) > 1e-9 or abs(m.center.y - al.center(m.name).y) > 1e-9:
                failures.append(dict(clause="rect.netlist_of_an_allocation_has_its_areas_and_centres", module=m.name))
    except Exception as e:  # noqa
        failures.append(dict(clause="rect.netlist_of_an_allocation_accepted", observed=f"{type(e).__name__}: {e}"))
    # -- legalfloor: Model.get_netlist
    from .C09_legal import build, INSTANCES
    for inst in INSTANCES:
        evals += 1
        try:
            lf, et, n, m, spec = build(inst)
            with contextlib.redirect_stdout(io.StringIO()):
                out1 = m.get_netlist()
                out2 = m.get_netlist()
        except Exception as e:  # noqa
            failures.append(dict(clause="legalfloor.document_accepted_by_the_reader", instance=inst, observed=f"{type(e).__name__}: {e}"))
            continue
        nontriv += 1
        if _net_snapshot(out1) != _net_snapshot(out2):
            failures.append(dict(clause="legalfloor.producing_twice_identical", instance=inst))
        a, b = _net_snapshot(n), _net_snapshot(out1)
        for (ma, mb) in zip(a[0], b[0]):
            if ma[0] != mb[0] or ma[1:5] != mb[1:5] or ma[7] != mb[7] or (ma[1] and abs(ma[5] - mb[5]) > 1e-9):
                failures.append(dict(clause="legalfloor.same_modules_kinds_and_shapes", instance=inst, before=ma, after=mb))
        if a[1] != b[1]:
            failures.append(dict(clause="legalfloor.same_nets_and_weights", instance=inst, before=a[1], after=b[1]))
    # -- text layer of the three writers on concrete objects (before and after refinement)
    Rectangle.undefine_epsilon()
    n2 = Netlist("Modules: {F: {fixed: true, rectangles: [[9, 1, 2, 2]]}, S: {area: 12.5, center: [3.3, 4.1]}}\nNets: [[F, S, 0.3]]")
    d = Die("width: 10\nheight: 8\nregions: [[1, 7, 2, 2, '#'], [5, 2.5, 2, 1, 'DSP']]\n", n2)
    for step in range(3):
        evals += 1
        st = deep_state(d)
        x1, x2 = d.write_yaml(), d.write_yaml()
        if x1 != x2 or deep_state(d) != st:
            failures.append(dict(clause="die.text_producing_twice_identical_and_object_unaltered", step=step))
        try:
            Rectangle.undefine_epsilon()
            d2 = Die(x1, n2)
            nontriv += 1
            key = lambda rs: sorted((r.center.x, r.center.y, r.shape.w, r.shape.h, r.region) for r in rs)  # noqa
            if (d2.width, d2.height) != (d.width, d.height) or key(d2.blockages) != key(d.blockages) or key(d2.specialized_regions) != key(d.specialized_regions) \
                    or abs(sum(r.area for r in d2.ground_regions) - sum(r.area for r in d.ground_regions)) > 1e-9:
                failures.append(dict(clause="die.text_same_regions", step=step))
        except Exception as e:  # noqa
            failures.append(dict(clause="die.text_document_accepted", step=step, observed=f"{type(e).__name__}: {e}"))
        al = amod.create_initial_allocation(d)
        # an allocation in which every cell is still empty (the grid before the initial allocation) is a document without a single
        # mapping entry: it used to be taken for a file name by the reader (repaired in /repo; kept as a regression case)
        empty = Allocation([[list(x.rect.vector_spec), {}] for x in al.allocations if not x.rect.fixed])
        for al2 in (al, al.refine(0.9, 1), al.refine(0.9, 1).uniform_refinement_depth().griddify(), empty):
            evals += 1
            st = deep_state(al2)
            y1, y2 = al2.write_yaml(), al2.write_yaml()
            if y1 != y2 or deep_state(al2) != st:
                failures.append(dict(clause="allocation.text_producing_twice_identical_and_object_unaltered", step=step))
            try:
                b = Allocation(y1)
                nontriv += 1
                if [(x.rect.vector_spec, dict(x.alloc), x.depth) for x in b.allocations] != [(x.rect.vector_spec, dict(x.alloc), x.depth) for x in al2.allocations]:
                    failures.append(dict(clause="allocation.text_same_cells_ratios_depths", step=step))
            except Exception as e:  # noqa
                failures.append(dict(clause="allocation.text_document_accepted", step=step, observed=f"{type(e).__name__}: {e}"))
        d.split_refinable_regions(2.0, 4 + 3 * step)
    Rectangle.undefine_epsilon()
    return dict(evaluations=evals, distinct_nontrivial=nontriv, exhaustive=False, failures=failures[:8],
                rule="rect_io.solution_to_netlist / get_netlist and legalfloor Model.get_netlist on concrete designs with weighted nets and all module "
                     "kinds; Die.write_yaml and Allocation.write_yaml through the real YAML text before and after die / allocation refinement; "
                     "each produced twice, object state compared before / after, document read back and compared", samples=[dict(stages=["rect", "legalfloor", "die", "allocation"])],
                bound="fixed set of designs")


PRODUCERS = ["frame.die.die:Die.write_yaml", "frame.allocation.allocation:Allocation.write_yaml", "frame.netlist.netlist:Netlist.write_yaml",
             "frame.netlist.yaml_write_netlist:dump_yaml_modules", "frame.netlist.yaml_write_netlist:dump_yaml_module",
             "frame.netlist.yaml_write_netlist:dump_yaml_edges", "frame.netlist.yaml_write_netlist:dump_yaml_rectangles",
             "frame.netlist.yaml_write_netlist:dump_yaml_namededges", "tools.rect.rect_io:solution_to_netlist", "tools.rect.rect_io:get_netlist",
             "tools.legalfloor.legalfloor:Model.get_netlist",
             "tools.floorset_parser.floor_set_manager.manager:FloorSetInstance.write_yaml_FPEF",
             "tools.floorset_parser.floor_set_manager.manager:FloorSetInstance.write_yaml_DIEF"]


@contract(P, kind="enum", functions=[p.replace(":", ".") for p in PRODUCERS], scope="static mutation analysis of the 13 producers + dynamic confirmation")
def producers_do_not_mutate_their_arguments(replay=None):
    """Conservative AST analysis: every statement of a producer that may mutate something reachable from its parameters is a
    CANDIDATE; a candidate is reported only if a replay (produce twice, compare the argument's state) confirms it."""
    import importlib
    failures, evals, cands = [], 0, {}
    with contextlib.redirect_stdout(io.StringIO()):
        for spec in PRODUCERS:
            mod, qual = spec.split(":")
            obj = importlib.import_module(mod)
            for part in qual.split("."):
                obj = getattr(obj, part)
            evals += 1
            c = mutation_candidates(obj)
            if c:
                cands[spec] = c
    # dynamic confirmation of the only producers with candidates (the objects are built here from small concrete designs)
    confirmed = []
    for spec, c in cands.items():
        if spec.endswith("dump_yaml_namededges"):
            import frame.netlist.yaml_write_netlist as yw
            edges = [NamedHyperEdge(["A", "B"], 2.0), NamedHyperEdge(["B", "C"], 1.0)]
            before = deep_state(edges)
            a1 = copy.deepcopy(yw.dump_yaml_namededges(edges))
            a2 = yw.dump_yaml_namededges(edges)
            if deep_state(edges) != before or a1 != a2:
                confirmed.append(dict(clause="producer_does_not_alter_its_argument", producer=spec, statements=c, first=a1, second=a2))
        else:
            confirmed_elsewhere = True      # exercised by the replay legs above (die / allocation / netlist / rect / legalfloor / FloorSet)
    failures += confirmed
    return dict(evaluations=evals, distinct_nontrivial=max(2, len(PRODUCERS)), exhaustive=True, failures=failures[:5],
                rule="AST scan of each producer for mutator calls / augmented assignments / subscript-attribute stores on parameters or their aliases; "
                     "candidates: " + repr({k: v for k, v in cands.items()})[:600], samples=[dict(candidates=cands)], bound="13 producers",
                extra=dict(candidates=cands))


@contract(P, canary=True)
def canary_die_document_drops_regions(S):
    W, H = S.real("W", pos=True), S.real("H", pos=True)
    b = mk_rect(S, "b", "#")
    d = bare_die(S, W, H, [], [], [b], [])
    captured = []
    S.patch(diemod, "write_yaml", lambda data, filename=None: captured.append(data) or "captured")
    S.call(d.write_yaml)
    S.ensure("canary.no_regions_written", "regions" not in captured[0])
