"""C07 -- SAT layer: every posted constraint is encoded exactly (tools/rect/satmanager.py, tools/rect/pseudobool.py).
Bounded exhaustive legs (run-time contracts over enumerated finite domains) + deductive step lemmas of the ROBDD
construction for symbolic coefficients (the real closures of Ineq.getrobdd, captured by stubbing constructrobdd)."""
import itertools
import os
import random

from pysat.solvers import Solver

from vf import core, symx
from vf.core import contract
from vf.symx import sand, sor, snot, seq, siff, simplies, sif
import tools.rect.pseudobool as pb
import tools.rect.satmanager as smod
from tools.rect.satmanager import SATManager

core.shim(pb)
P = "C07"
M = "tools.rect."


# ---------------------------------------------------------------------------------------------------------------------
# bounded legs

def cnf_of(sm):
    """integer clauses exactly as SATManager.solve builds them"""
    return [[(-sm.ttable[x.v] if x.s == sm.isflipped(x.v) else sm.ttable[x.v]) for x in c] for c in sm.clauses]


def admits(sm, names, sigma, solver):
    """does the assignment sigma of the user's variables extend to a model of the CNF?"""
    ass = [(sm.ttable[n] if v else -sm.ttable[n]) for n, v in zip(names, sigma)]
    return solver.solve(assumptions=ass)


def lit_val(var_idx, sign, sigma):
    return 1 if sigma[var_idx] == sign else 0


OPS = {">=": lambda a, b: a >= b, "<=": lambda a, b: a <= b, ">": lambda a, b: a > b, "<": lambda a, b: a < b, "=": lambda a, b: a == b}


def build_ineq(sm, lits, terms, const_l, rhs_terms, const_r, op):
    """builds the inequality through the public operator API from how it is specified"""
    lhs = pb.Expr()
    for (v, s, c) in terms:
        L = lits[v] if s else -lits[v]
        lhs = lhs + c * L
    lhs = lhs + const_l
    rhs = pb.Expr()
    for (v, s, c) in rhs_terms:
        L = lits[v] if s else -lits[v]
        rhs = rhs + c * L
    rhs = rhs + const_r
    return {">=": lhs >= rhs, "<=": lhs <= rhs, ">": lhs > rhs, "<": lhs < rhs, "=": lhs == rhs}[op]


def direct(terms, const_l, rhs_terms, const_r, op, sigma):
    a = const_l + sum(c * lit_val(v, s, sigma) for v, s, c in terms)
    b = const_r + sum(c * lit_val(v, s, sigma) for v, s, c in rhs_terms)
    return OPS[op](a, b)


def check_one(nvars, terms, const_l, rhs_terms, const_r, op, decomposition, also_solve=False):
    """returns (status, failure) ; status in {'encoded', 'refused'}"""
    sm = SATManager()
    lits = [sm.newvar(f"x{i}") for i in range(nvars)]
    names = [l.v for l in lits]
    try:
        q = build_ineq(sm, lits, terms, const_l, rhs_terms, const_r, op)
        sm.pseudoboolencoding(q, decomposition)
    except Exception as e:  # noqa: a constraint that cannot be encoded is refused: allowed
        if isinstance(e, (KeyError, IndexError, TypeError, AttributeError, AssertionError, RecursionError)):
            return "crash", dict(clause="encoding_crashes", observed=f"{type(e).__name__}: {e}")
        return "refused", None
    solver = Solver(bootstrap_with=cnf_of(sm))
    sat_any = False
    for sigma in itertools.product([False, True], repeat=nvars):
        want = direct(terms, const_l, rhs_terms, const_r, op, sigma)
        got = admits(sm, names, sigma, solver)
        sat_any = sat_any or want
        if got != want:
            solver.delete()
            return "encoded", dict(clause="assignment_extends_to_model_iff_it_satisfies_the_constraint",
                                   assignment=dict(zip(names, sigma)), satisfies=want, cnf_admits=got, constraint=q.tostr())
    solver.delete()
    if also_solve:
        r = sm.solve()
        if r != sat_any:
            return "encoded", dict(clause="solve_reports_satisfiable_iff_some_assignment_exists", solve=r, exists=sat_any)
        if r:
            sigma = tuple(bool(sm.value(l)) for l in lits)
            if not direct(terms, const_l, rhs_terms, const_r, op, sigma):
                return "encoded", dict(clause="exposed_model_satisfies_the_constraint", model=sigma)
            e = pb.Expr()
            for (v, s, c) in terms:
                e = e + c * (lits[v] if s else -lits[v])
            if sm.evalexpr(e + const_l) != const_l + sum(c * lit_val(v, s, sigma) for v, s, c in terms):
                return "encoded", dict(clause="evalexpr_agrees_with_the_model", model=sigma)
            if any(sm.value(-l) != 1 - sm.value(l) for l in lits):
                return "encoded", dict(clause="value_of_negated_literal", model=sigma)
    return "encoded", None


COEFS = [-3, -2, -1, 1, 2, 3]


def _term_multisets(nvars, k, coefs):
    atoms = [(v, s, c) for v in range(nvars) for s in (True, False) for c in coefs]
    return itertools.combinations_with_replacement(atoms, k)


def _ineq_space(tier):
    """(terms, rhs_terms, const_r) specifications; repeated variables and zero coefficients included"""
    nv = 3
    for k in (0, 1, 2):
        for terms in _term_multisets(nv, k, COEFS):
            yield nv, list(terms), []
    # three and four literals (incl. repeated variables), a zero coefficient, literals on the right-hand side
    for terms in _term_multisets(nv, 3, COEFS):
        yield nv, list(terms), []
    for terms in _term_multisets(2, 2, [-2, 1, 3]):
        for r in _term_multisets(2, 1, [-1, 2]):
            yield 2, list(terms) + [(0, True, 0)], list(r)
    if tier == "thorough":
        for terms in _term_multisets(4, 4, [-3, 1, 2]):
            yield 4, list(terms), []


@contract(P, kind="enum", functions=[M + "satmanager.SATManager.pseudoboolencoding", M + "satmanager.SATManager._codifyrobdd",
                                     M + "pseudobool.Ineq.isclause", M + "pseudobool.Ineq.getrobdd", M + "pseudobool.constructrobdd",
                                     M + "satmanager.SATManager.solve", M + "satmanager.SATManager.value", M + "satmanager.SATManager.evalexpr"],
          scope="bounded: <= 3 literals (4 thorough) incl. repeated variables, coefficients in [-3,3], all bounds in the reachable range +-1, "
                "5 operators, both constructions; all in one process (every encoding follows all earlier ones in the shared store)",
          params=[dict(chunk=i) for i in range(16)])
def inequalities_encoded_exactly(chunk, replay=None):
    tier = os.environ.get("VERIF_TIER", "quick")
    evals = nontrivial = refused = 0
    failures, samples = [], []
    seen = set()
    if replay:
        specs = [(replay["nvars"], [tuple(t) for t in replay["terms"]], [tuple(t) for t in replay["rhs_terms"]], replay["bound"], replay["op"], replay["decomposition"])]
        prelude = replay.get("history", [])
        for h in prelude:
            check_one(h[0], [tuple(t) for t in h[1]], 0, [tuple(t) for t in h[2]], h[3], h[4], h[5])
    else:
        specs = []
        for idx, (nv, terms, rterms) in enumerate(_ineq_space(tier)):
            if idx % 16 != chunk:
                continue
            lo = sum(min(0, c) for _, _, c in terms) - sum(max(0, c) for _, _, c in rterms)
            hi = sum(max(0, c) for _, _, c in terms) - sum(min(0, c) for _, _, c in rterms)
            for b in range(lo - 1, hi + 2):
                for op in OPS:
                    for dec in (False, True):
                        specs.append((nv, terms, rterms, b, op, dec))
    history = []
    for n_, (nv, terms, rterms, b, op, dec) in enumerate(specs):
        evals += 1
        st, f = check_one(nv, terms, 0, rterms, b, op, dec, also_solve=(n_ % 7 == 0))
        if st == "refused":
            refused += 1
        else:
            key = (tuple(terms), tuple(rterms), b, op, dec)
            if key not in seen and terms:
                seen.add(key)
                nontrivial += 1
        if len(samples) < 3 and terms and st == "encoded":
            samples.append(dict(terms=terms, rhs_terms=rterms, bound=b, op=op, decomposition=dec))
        if f:
            f.update(nvars=nv, terms=terms, rhs_terms=rterms, bound=b, op=op, decomposition=dec, history=history[-3:])
            failures.append(f)
            if len(failures) >= 5:
                break
        history.append((nv, terms, rterms, b, op, dec))
    return dict(evaluations=evals, distinct_nontrivial=nontrivial, exhaustive=True, failures=failures,
                rule="every inequality  sum c_i*lit_i  op  sum d_j*lit_j + b  built with the operator API over <= 3 variables: all "
                     "multisets of <= 2 (coefficient, variable, polarity) atoms with coefficients in {-3..3}\\{0}, 3-4 atom multisets over a "
                     "coefficient subset, a zero coefficient and right-hand-side literals; b over the reachable range +-1; operators "
                     ">= <= > < =; both ROBDD constructions; oracle: for all 2^n assignments, CNF under unit assumptions is satisfiable "
                     "(pysat) iff the assignment satisfies the constraint evaluated directly; refusal (Exception) allowed; "
                     "non-trivial = distinct encoded (not refused) constraints with at least one literal",
                samples=samples, bound="see scope", extra=dict(refused=refused))


@contract(P, kind="enum", functions=[M + "satmanager.SATManager.quadraticencoding", M + "satmanager.SATManager.heuleencoding",
                                     M + "satmanager.SATManager.imply", M + "satmanager.SATManager.add_clause"],
          scope="bounded: at-most-one groups of size <= 9 (12 thorough), k in 3..5, literals of either polarity; implications and clauses over <= 4 variables")
def cardinality_and_clauses_encoded_exactly(replay=None):
    tier = os.environ.get("VERIF_TIER", "quick")
    maxn = 9 if tier != "thorough" else 12
    evals = nontrivial = 0
    failures, samples = [], []
    rng = random.Random(5)
    for n in range(0, maxn + 1):
        for enc in ["quadratic", 3, 4, 5]:
            for pol in range(3):
                sm = SATManager()
                base = [sm.newvar(f"y{i}") for i in range(n)]
                signs = [True] * n if pol == 0 else ([False] * n if pol == 1 else [rng.random() < 0.5 for _ in range(n)])
                lst = [l if s else -l for l, s in zip(base, signs)]
                arg = list(lst)
                if enc == "quadratic":
                    sm.quadraticencoding(arg)
                else:
                    sm.heuleencoding(arg, enc)
                evals += 1
                nontrivial += 1 if n >= 2 else 0
                solver = Solver(bootstrap_with=cnf_of(sm) or [[1, -1]])
                names = [l.v for l in base]
                if len(arg) != n or any(a is not b for a, b in zip(arg, lst)):
                    failures.append(dict(clause="argument_list_unchanged", n=n, enc=enc))
                for sigma in itertools.product([False, True], repeat=n):
                    cnt = sum(1 for v, s in zip(sigma, signs) if v == s)
                    got = solver.solve(assumptions=[(sm.ttable[nm] if v else -sm.ttable[nm]) for nm, v in zip(names, sigma)])
                    if got != (cnt <= 1):
                        failures.append(dict(clause="at_most_one_group_encoded_exactly", n=n, encoding=enc, signs=signs,
                                             assignment=sigma, true_literals=cnt, cnf_admits=got))
                        break
                solver.delete()
                if len(samples) < 2 and n == 5:
                    samples.append(dict(group_size=n, encoding=enc, clauses=len(sm.clauses)))
    try:
        SATManager().heuleencoding([], 2)
        failures.append(dict(clause="heule_rejects_k_below_3"))
    except Exception:
        pass
    # imply / add_clause
    for n in range(1, 4):
        for signs in itertools.product([True, False], repeat=n + 1):
            sm = SATManager()
            base = [sm.newvar(f"z{i}") for i in range(n + 1)]
            lits = [l if s else -l for l, s in zip(base, signs)]
            sm.imply(lits[:n], lits[n])
            sm2 = SATManager()
            base2 = [sm2.newvar(f"z{i}") for i in range(n + 1)]
            sm2.add_clause([l if s else -l for l, s in zip(base2, signs)])
            evals += 2
            nontrivial += 2
            s1, s2 = Solver(bootstrap_with=cnf_of(sm)), Solver(bootstrap_with=cnf_of(sm2))
            for sigma in itertools.product([False, True], repeat=n + 1):
                vals = [v == s for v, s in zip(sigma, signs)]
                a1 = [(sm.ttable[b.v] if v else -sm.ttable[b.v]) for b, v in zip(base, sigma)]
                a2 = [(sm2.ttable[b.v] if v else -sm2.ttable[b.v]) for b, v in zip(base2, sigma)]
                if s1.solve(assumptions=a1) != ((not all(vals[:n])) or vals[n]):
                    failures.append(dict(clause="implication_encoded_exactly", signs=signs, assignment=sigma))
                if s2.solve(assumptions=a2) != any(vals):
                    failures.append(dict(clause="clause_encoded_exactly", signs=signs, assignment=sigma))
            s1.delete()
            s2.delete()
    return dict(evaluations=evals, distinct_nontrivial=nontrivial, exhaustive=True, failures=failures[:5],
                rule="at-most-one over n literals (n = 0..N, all-positive / all-negative / mixed polarity), pairwise and chained with "
                     "k=3,4,5: for all 2^n assignments the CNF (auxiliaries existential) is satisfiable iff at most one literal is true; "
                     "imply([a..], x) and add_clause for every polarity pattern over <= 4 variables; non-trivial = groups of size >= 2",
                samples=samples, bound=f"n <= {maxn}")


@contract(P, kind="enum", functions=[M + "satmanager.SATManager.solve", M + "satmanager.SATManager.pseudoboolencoding"],
          scope="bounded: 400 (quick) random systems of 2-4 constraints over 4 variables, several managers interleaved in one process")
def systems_and_histories(replay=None):
    """several constraints posted to one manager, several managers interleaved, all sharing the process-wide ROBDD store"""
    tier = os.environ.get("VERIF_TIER", "quick")
    rng = random.Random(1234 + int(os.environ.get("VERIF_SEED", "0") or 0))
    n_sys = 400 if tier != "thorough" else 6000
    evals = nontrivial = 0
    failures, samples = [], []
    managers = []
    for it in range(n_sys):
        nv = 4
        sm = SATManager()
        lits = [sm.newvar(f"v{i}") for i in range(nv)]
        posted = []
        for _ in range(rng.randint(2, 4)):
            k = rng.randint(1, 4)
            terms = [(rng.randrange(nv), rng.random() < 0.5, rng.choice([1, 1, 2, 3, 5, 7, -1, -2, -4])) for _ in range(k)]
            lo = sum(min(0, c) for _, _, c in terms)
            hi = sum(max(0, c) for _, _, c in terms)
            b = rng.randint(lo - 1, hi + 1)
            op = rng.choice([">=", "<=", ">=", "<=", ">", "<"])
            dec = rng.random() < 0.5
            try:
                sm.pseudoboolencoding(build_ineq(sm, lits, terms, 0, [], b, op), dec)
                posted.append((terms, b, op))
            except Exception as e:  # noqa
                if isinstance(e, (KeyError, IndexError, TypeError, AttributeError, AssertionError)):
                    failures.append(dict(clause="encoding_crashes", observed=f"{type(e).__name__}: {e}", terms=terms, bound=b, op=op))
        managers.append((sm, lits, posted))
        # check this manager and, every now and then, an OLDER one again (its clauses must still mean the same)
        for (m, ls, ps) in [managers[-1]] + ([managers[rng.randrange(len(managers))]] if it % 5 == 0 else []):
            evals += 1
            nontrivial += 1 if ps else 0
            names = [l.v for l in ls]
            solver = Solver(bootstrap_with=cnf_of(m) or [[1, -1]])
            exists = False
            for sigma in itertools.product([False, True], repeat=nv):
                want = all(direct(t, 0, [], b, op, sigma) for t, b, op in ps)
                exists = exists or want
                if admits(m, names, sigma, solver) != want:
                    failures.append(dict(clause="system_admits_exactly_the_assignments_satisfying_all_posted_constraints",
                                         posted=ps, assignment=sigma, satisfies=want))
                    break
            solver.delete()
            r = m.solve()
            if r != exists:
                failures.append(dict(clause="solve_reports_satisfiable_iff_some_assignment_exists", posted=ps, solve=r, exists=exists))
            elif r:
                sigma = tuple(bool(m.value(l)) for l in ls)
                if not all(direct(t, 0, [], b, op, sigma) for t, b, op in ps):
                    failures.append(dict(clause="exposed_model_satisfies_every_posted_constraint", posted=ps, model=sigma))
        if len(samples) < 2:
            samples.append(dict(posted=posted))
        if len(failures) >= 5:
            break
    return dict(evaluations=evals, distinct_nontrivial=nontrivial, exhaustive=False, failures=failures[:5],
                rule="random systems of 2-4 inequalities (1-4 literals, coefficients up to 7, repeated variables, either construction) "
                     "posted to one SATManager; managers accumulate in the process and older ones are re-checked later (shared ROBDD "
                     "store); oracle as above plus solve()/value(); non-trivial = systems with at least one encoded constraint",
                samples=samples, bound=f"{n_sys} systems")


# ---------------------------------------------------------------------------------------------------------------------
# deductive lemmas: the inductive steps of the ROBDD construction, on the REAL closures of Ineq.getrobdd

def _capture_closures(decomposition):
    """runs the real Ineq.getrobdd with constructrobdd replaced by a recorder: returns its closures"""
    got = {}

    def recorder(data, bccond, bcconstr, dvar, ifprop, elprop, serdat, memo=None):
        got.update(bccond=bccond, bcconstr=bcconstr, dvar=dvar, ifprop=ifprop, elprop=elprop, serdat=serdat)
        return 1
    old = pb.constructrobdd
    pb.constructrobdd = recorder
    try:
        q = pb.Ineq(pb.Expr() + pb.Literal("a") + pb.Literal("b"), pb.Expr() + 2, ">=")
        q.getrobdd(decomposition)
    finally:
        pb.constructrobdd = old
    return got


def _val_terms(lst, sigma):
    r = 0
    for t in lst:
        r = r + sif(siff(sigma[t.L.v], t.L.s), t.c, 0)
    return r


@contract(P, functions=[M + "pseudobool.Ineq.getrobdd", M + "pseudobool.maxsum", M + "pseudobool.insert"],
          params=[dict(dec=d, head_sign=s, tail=t) for d in (False, True) for s in (True, False) for t in (0, 1, 2)])
def robdd_step_lemmas(S, dec, head_sign, tail):
    """For data = ([c*lit(x)] + tail, b) with symbolic c > 0, b and tail coefficients (> 0, sorted as the construction
    keeps them): under every assignment, 'sum >= b' equals 'sum_if >= b_if' when x is true and 'sum_el >= b_el' when x is
    false, where (.., ..) are what the real ifprop / elprop closures return; and the base case is right."""
    cl = _capture_closures(dec)
    c = S.int("c", lo=1)
    b = S.int("b")
    names = ["y", "z"][:tail]
    sigma = {"x": S.symbool("s_x"), "y": S.symbool("s_y"), "z": S.symbool("s_z")}
    lst = [pb.Term(pb.Literal("x", head_sign), c)]
    prev = c
    for nm in names:
        k = S.int("k" + nm, lo=1)
        S.assume(k <= prev)
        prev = k
        lst.append(pb.Term(pb.Literal(nm, S.bool("sign_" + nm)), k))
    data = (lst, b)
    total = _val_terms(lst, sigma)
    if dec and S.mode == "sym":
        # largebit replaced by what the step needs of its contract: 1 <= largebit(n) <= n  (power of two: bounded leg)
        def lb(n):
            p = symx.cur().fresh_int("largebit")
            symx.cur().assume(sand(p >= 1, p <= n))
            return p
        lbc = {}

        def largebit_stub(n):
            key = symx.term(n).sexpr() if symx.is_sym(n) else n
            if key not in lbc:
                lbc[key] = lb(n)
            return lbc[key]
        S.patch(pb, "largebit", largebit_stub)
    o_dv = S.call(cl["dvar"], data)
    S.ensure("step.decision_variable_is_the_head_variable", o_dv.ok and o_dv.value == "x")
    o_if, o_el = S.call(cl["ifprop"], data), S.call(cl["elprop"], data)
    S.ensure("step.no_raise", o_if.ok and o_el.ok)
    if not (o_if.ok and o_el.ok):
        return
    (l_if, b_if), (l_el, b_el) = o_if.value, o_el.value
    holds = total >= b
    S.ensure("step.if_branch_is_the_constraint_with_x_true",
             simplies(sigma["x"], siff(holds, _val_terms(l_if, sigma) >= b_if)))
    S.ensure("step.else_branch_is_the_constraint_with_x_false",
             simplies(snot(sigma["x"]), siff(holds, _val_terms(l_el, sigma) >= b_el)))
    for nm, l2 in (("if", l_if), ("else", l_el)):
        S.ensure(f"step.{nm}_list_has_positive_coefficients_sorted_descending",
                 sand(*[t.c > 0 for t in l2], *[l2[i].c >= l2[i + 1].c for i in range(len(l2) - 1)]))
        S.ensure(f"step.{nm}_measure_decreases", sum([t.c for t in l2], 0) < sum([t.c for t in lst], 0))
    S.ensure("step.argument_untouched", len(lst) == 1 + tail and seq(lst[0].c, c))
    # base case
    o_bc = S.call(cl["bccond"], data)
    if o_bc.ok and o_bc.value:
        o_k = S.call(cl["bcconstr"], data)
        S.ensure("base.constant_node_iff_constraint_holds_under_every_assignment",
                 o_k.ok and o_k.value in (0, 1) and siff(o_k.value == 1, holds))
    o_ms = S.call(pb.maxsum, lst)
    S.ensure("maxsum.is_the_sum_of_coefficients_and_bounds_the_value",
             sand(seq(o_ms.value, sum([t.c for t in lst], 0)), total <= o_ms.value, total >= 0) if o_ms.ok else False)


@contract(P, functions=[M + "pseudobool.Ineq.isclause"], params=[dict(n=n, op=o) for n in (0, 1, 2, 3) for o in (">=", ">")])
def isclause_shortcut_is_exact(S, n, op):
    """Ineq.isclause: when it answers True the constraint is equivalent to the clause it stores (or is a tautology when
    no clause is stored) under every assignment -- symbolic positive coefficients and bound."""
    names = ["x", "y", "z"][:n]
    sigma = {nm: S.symbool("s_" + nm) for nm in names}
    e = pb.Expr()
    t = {}
    for nm in names:
        t[nm] = pb.Term(pb.Literal(nm, S.bool("sign_" + nm)), S.int("k" + nm, lo=1))
    e = pb.Expr(0, t)
    b = S.int("b")
    q = pb.Ineq(e, pb.Expr(b), op)
    val = _val_terms(list(q.lhs.t.values()), sigma)
    holds = (val >= q.rhs) if q.op == ">=" else (val > q.rhs)
    out = S.call(q.isclause)
    S.ensure("isclause.no_raise", out.ok)
    if not out.ok or not out.value:
        return
    if q.clause is None:
        S.ensure("isclause.true_without_clause_only_for_tautologies", holds)
    else:
        S.ensure("isclause.stored_clause_is_equivalent_to_the_constraint",
                 siff(holds, sor(*[siff(sigma[L.v], L.s) for L in q.clause]) if q.clause else False))


@contract(P, kind="enum", functions=[M + "pseudobool.largebit", M + "pseudobool.insert"], scope="bounded: n <= 4096 and n near powers of two up to 2**200; lists of <= 5 terms")
def largebit_and_insert(replay=None):
    failures = []
    evals = 0
    for n in range(1, 4097):
        p = pb.largebit(n)
        evals += 1
        if not (p >= 1 and p & (p - 1) == 0 and p <= n < 2 * p):
            failures.append(dict(clause="largebit_is_the_largest_power_of_two_not_above_n", n=n, observed=p))
            break
    # large arguments (added after seed C07-8: a float logarithm rounds up just below a power of two from 2**49 on): all n within
    # 2 of a power of two up to 2**200, and the coefficient-decomposition encoding of an inequality with such a coefficient
    if not failures:
        for k in range(1, 201):
            for n in (2 ** k - 2, 2 ** k - 1, 2 ** k, 2 ** k + 1, 3 * 2 ** k - 1):
                if n < 1:
                    continue
                p = pb.largebit(n)
                evals += 1
                if p != 1 << (n.bit_length() - 1):
                    failures.append(dict(clause="largebit_is_the_largest_power_of_two_not_above_n", n=n, observed=p))
                    break
            if failures:
                break
    if not failures:
        for big in (2 ** 20 - 1, 2 ** 49 - 1, 2 ** 53 + 1, 2 ** 60 - 1, 3 * 2 ** 55 - 1):
            for dec in (False, True):
                evals += 1
                st, f = check_one(3, [(0, True, big), (1, True, 1), (2, True, 1)], 0, [], big + 1, ">=", dec, also_solve=True)
                if f:
                    f.update(coefficient=big, decomposition=dec)
                    failures.append(f)
    nt = 0
    for k in range(0, 5):
        for cs in itertools.product([1, 2, 3], repeat=k):
            base = sorted(cs, reverse=True)
            for c in (0, 1, 2, 3, 4):
                lst = [pb.Term(pb.Literal(f"v{i}"), x) for i, x in enumerate(base)]
                r = pb.insert(lst, pb.Term(pb.Literal("w"), c))
                evals += 1
                nt += 1
                got = [t.c for t in r]
                if got != sorted(base + ([c] if c else []), reverse=True):
                    failures.append(dict(clause="insert_keeps_the_list_sorted", base=base, inserted=c, observed=got))
    return dict(evaluations=evals, distinct_nontrivial=nt, exhaustive=True, failures=failures[:3],
                rule="largebit(n) for all n in 1..4096 and for every n within 2 of a power of two up to 2**200; inequalities with one coefficient of 2**20-1 .. 2**60-1 under both "
                     "constructions (all assignments); insert of coefficient 0..4 into every sorted list of <= 4 terms over {1,2,3}",
                samples=[dict(n=37, largebit=pb.largebit(37))], bound="n <= 4096")


@contract(P, canary=True, kind="enum")
def canary_wrong_oracle(replay=None):
    st, f = check_one(2, [(0, True, 1), (1, True, 1)], 0, [], 1, "<=", False)
    # a deliberately wrong oracle (expects 'at least one' for an 'at most one' constraint) must be refuted
    sm = SATManager()
    lits = [sm.newvar("a"), sm.newvar("b")]
    sm.pseudoboolencoding(build_ineq(sm, lits, [(0, True, 1), (1, True, 1)], 0, [], 1, "<="))
    solver = Solver(bootstrap_with=cnf_of(sm))
    bad = [s for s in itertools.product([False, True], repeat=2) if admits(sm, [l.v for l in lits], s, solver) != (sum(s) >= 1)]
    return dict(evaluations=1, distinct_nontrivial=2, failures=[dict(clause="canary", assignments=bad)] if bad else [], rule="canary", samples=[1])


# ---- bounded leg: larger random inequalities (the exhaustive leg stops at 3-4 literals with coefficients in [-3, 3]) --------------------

@contract(P, kind="enum", functions=[M + "satmanager.SATManager.pseudoboolencoding", M + "satmanager.SATManager._codifyrobdd", M + "pseudobool.Ineq.getrobdd",
                                     M + "pseudobool.Ineq.isclause", M + "satmanager.SATManager.solve"],
          scope="bounded: random inequalities of 4-8 literals over 4-7 variables (repeated variables, both polarities, literals on both sides), coefficients "
                "in [-12, 12] incl. 0, bounds over the reachable range, 5 operators, both constructions; all 2^n assignments; one process per chunk (shared store)",
          params=[dict(chunk=i) for i in range(8)])
def larger_inequalities(chunk, replay=None):
    import random
    tier = os.environ.get("VERIF_TIER", "quick")
    rng = random.Random(700 + chunk + 100 * int(os.environ.get("VERIF_SEED", "0") or 0))
    n_cases = 200 if tier != "thorough" else 3000
    failures, evals, nontriv, refused, samples, history = [], 0, 0, 0, [], []
    if replay:
        for h in replay.get("history", []):
            check_one(h[0], [tuple(t) for t in h[1]], 0, [tuple(t) for t in h[2]], h[3], h[4], h[5])
    for it in range(n_cases):
        if replay:
            nv, terms, rterms, b, op, dec = replay["nvars"], [tuple(t) for t in replay["terms"]], [tuple(t) for t in replay["rhs_terms"]], replay["bound"], replay["op"], replay["decomposition"]
        else:
            nv = rng.randint(4, 7)
            shape = rng.choice(["general", "general", "equal_small", "sum_hits_bound", "big_and_small"])
            k = rng.randint(4, 8)
            if shape == "equal_small":
                cs = [rng.choice([1, 2])] * k
            elif shape == "big_and_small":
                cs = [rng.choice([7, 9, 12]) for _ in range(2)] + [rng.choice([1, 1, 2]) for _ in range(k - 2)]
            else:
                cs = [rng.choice([-12, -7, -5, -3, -2, -1, 0, 1, 1, 2, 3, 4, 5, 8, 12]) for _ in range(k)]
            atoms = [(rng.randrange(nv), rng.random() < 0.7, c) for c in cs]
            fixed_case = None
            if it < 2 and chunk < 2:    # two recorded families with 12 literals whose sub-problems "11 terms, bound d" and "1 term, bound 1d" must not be confused
                fixed_case = [([25] + [15] * 11, 30), ([22] + [12] * 11, 24)][it]
                nv = 12
                atoms = [(v, True, c) for v, c in enumerate(fixed_case[0])]
                shape = "many_literals"
            elif rng.random() < 0.03:     # ten or more pending terms (added after the open seed r8-C07-2: a memo key that concatenates two numbers without a separator)
                nv = rng.choice([11, 12])
                cs = [rng.choice([25, 15, 9])] + [rng.choice([15, 15, 5, 3]) for _ in range(nv - 1)]
                atoms = [(v, rng.random() < 0.8, c) for v, c in enumerate(cs)]
                shape = "many_literals"
            nr = rng.choice([0, 0, 0, 1, 2])
            terms, rterms = atoms[:len(atoms) - nr], atoms[len(atoms) - nr:]
            lo = sum(min(0, c) for _, _, c in terms) - sum(max(0, c) for _, _, c in rterms)
            hi = sum(max(0, c) for _, _, c in terms) - sum(min(0, c) for _, _, c in rterms)
            if shape == "sum_hits_bound":      # the small coefficients add up exactly to the bound (the isclause shortcut's boundary)
                small = sorted(abs(c) for _, _, c in terms)[:max(1, len(terms) - 1)]
                b = sum(small)
            else:
                b = rng.randint(lo - 1, hi + 1)
            op = rng.choice(list(OPS))
            dec = rng.random() < 0.5
            if fixed_case:
                terms, rterms, b, op, dec = atoms, [], fixed_case[1], ">=", (chunk == 1)
        evals += 1
        st, f = check_one(nv, terms, 0, rterms, b, op, dec, also_solve=(it % 3 == 0))
        if st == "refused":
            refused += 1
        else:
            nontriv += 1
        if f:
            f.update(nvars=nv, terms=terms, rhs_terms=rterms, bound=b, op=op, decomposition=dec, history=history[-4:])
            failures.append(f)
        if not samples and st == "encoded":
            samples.append(dict(nvars=nv, terms=terms, rhs_terms=rterms, bound=b, op=op, decomposition=dec))
        history.append((nv, terms, rterms, b, op, dec))
        if len(failures) >= 4 or replay:
            break
    return dict(evaluations=evals, distinct_nontrivial=nontriv, exhaustive=False, failures=failures[:4],
                rule="random inequalities  sum c_i*lit_i  op  sum d_j*lit_j + b  with 4-8 atoms over 4-7 variables (shapes: general coefficients in [-12, 12] "
                     "incl. 0 and repeated variables; equal small coefficients; two big and several small ones; bounds equal to the sum of the small "
                     "coefficients), built with the operator API and encoded under either construction in ONE process per chunk (the diagram store is shared "
                     "by all of them); oracle as in the exhaustive leg: for all 2^n assignments the CNF under unit assumptions is satisfiable iff the "
                     "assignment satisfies the constraint; every third case also through solve / value / evalexpr",
                samples=samples, bound=f"{n_cases} inequalities per chunk", extra=dict(refused=refused))
