"""C10 -- global floorplanning returns a feasible allocation and rigid hard modules (tools/glbfloor/optimization.py).
What the non-linear solver returns is ASSUMED by contract (every variable within its bounds, every equation of the model
holds); everything downstream of it is verified: extract_solution for all solver outputs that satisfy that contract, the
model facts the property relies on, and the rigid motion of hard modules.  A bounded end-to-end leg runs the real solver."""
import contextlib
import copy
import io
import os
import types

from vf import core, symx
from vf.core import contract
from .netlist_common import *  # noqa
from .alloc_common import Allocation, amod
from .C11_die_refine import bare_die
from .C05_netlist import ovl_r

P = "C10"
G = "tools.glbfloor.optimization."
_opt = None


def opt():
    global _opt
    if _opt is None:
        with contextlib.redirect_stdout(io.StringIO()):
            import tools.glbfloor.optimization as o
        core.shim(o)
        _opt = o
    return _opt


def setup(S, hard="none", flip=False):
    """die W x H, two disjoint cells inside it (the second one is the fixed module's cell), netlist: soft S, fixed F,
    optionally a movable hard module H with 2 rectangles"""
    E, EA = set_eps(S)
    stub_find_location(S, E, EA)
    W, H = S.real("W", pos=True), S.real("H", pos=True)
    mods = {"S": soft_module(S, "s", "scalar", True), "F": hard_module(S, "f", 1, True)}
    if hard != "none":
        mods["H"] = hard_module(S, "h", 2 if hard == "two" else 1, False, flip)
        if hard == "two":
            r0, r1 = mods["H"]["rectangles"]
            S.assume(ovl_r(r0, r1) <= 0)
    o_n = S.call(Netlist, {"Modules": mods, "Nets": [["S", "F"]]})
    if not o_n.ok:          # e.g. a flippable module whose rectangles are not a single-trunk orthogon: outside the property
        S.cover("netlist-not-accepted")
        return None
    n = o_n.value
    fr_ = n.get_module("F").rectangles[0]
    c0 = mk_rect(S, "c0")
    for r in (c0, fr_):
        b = specs.box(r)
        S.assume(sand(b[0] >= 0, b[1] >= 0, b[2] <= W, b[3] <= H))
    S.assume(specs.ovl(c0, fr_) <= 0)
    d = bare_die(S, W, H, [], [c0], [], [fr_])
    d._netlist = n
    return d, n, [c0, fr_], W, H, mods


def solver_output(S, n, cells, W, H, fixed_cell=1):
    """an ARBITRARY solver result satisfying the assumed contract of GEKKO/APOPT on the model of optimize_allocation:
    0 <= a <= 1, per-cell sum <= 1, centres within the die box; constants for fixed modules"""
    a, x, y, dsp = {}, {}, {}, {}
    names = []
    for m in n.modules:
        if m.is_hard and not m.is_fixed:
            names += [f"{m.name}_{r}" for r in range(m.num_rectangles)]
        names.append(m.name)
    for nm in names:
        a[nm] = {}
        base = nm.split("_")[0]
        mod = n.get_module(base)
        for c in range(len(cells)):
            if mod.is_fixed:
                own = fixed_cell[nm] if isinstance(fixed_cell, dict) else fixed_cell
                a[nm][c] = 1.0 if c == own else 0.0
            else:
                v = S.real(f"a_{nm}_{c}")
                S.assume(sand(v >= 0, v <= 1))
                a[nm][c] = v
        if mod.is_fixed:
            x[nm], y[nm] = mod.center.x, mod.center.y
        else:
            x[nm], y[nm] = S.real("x_" + nm), S.real("y_" + nm)
            S.assume(sand(x[nm] >= 0, x[nm] <= W, y[nm] >= 0, y[nm] <= H))
            dsp[nm] = S.real("d_" + nm, nonneg=True)
    for c in range(len(cells)):
        S.assume(sum(a[nm][c] for nm in names) <= 1)                    # cell capacity equation
    for m in n.modules:
        if m.is_hard and not m.is_fixed:
            for c in range(len(cells)):
                S.assume(seq(a[m.name][c], sum(a[f"{m.name}_{r}"][c] for r in range(m.num_rectangles))))
    return types.SimpleNamespace(a=a, x=x, y=y, d=dsp)


@contract(P, functions=[G + "extract_solution", G + "get_value", "frame.allocation.allocation.Allocation.__init__",
                        "frame.netlist.module.Module.recenter_rectangles"], budget_s=900, exact_feas_ms=50,
          params=[dict(hard=h, flip=f) for h, f in (("none", False), ("one", False), ("two", False), ("two", True))],
          scope="2 cells x (soft, fixed, optional movable hard with <= 2 rectangles); all solver outputs satisfying the assumed contract")
def extract_solution_is_feasible(S, hard, flip):
    o = opt()
    st = setup(S, hard, flip)
    if st is None:
        return
    d, n, cells, W, H, mods = st
    th = S.real("threshold")
    S.assume(sand(th > 0, th <= 1))
    model = solver_output(S, n, cells, W, H)
    frect = cells[1]
    fsnap = (frect.center.x, frect.center.y, frect.shape.w, frect.shape.h)
    hsnap = None
    if hard != "none":
        hm = n.get_module("H")
        hsnap = [(r, r.center.x, r.center.y, r.shape.w, r.shape.h) for r in hm.rectangles]
    out = S.call(o.extract_solution, model, d, cells, th)
    S.ensure("extract.no_raise", out.ok)
    if not out.ok:
        return
    die2, al, disp = out.value
    S.ensure("extract.returns_the_die_and_an_allocation", die2 is d and isinstance(al, Allocation))
    rects = [x.rect for x in al.allocations]
    S.ensure("extract.cells_are_input_cells", all(any(r is c for c in cells) for r in rects) and len({id(r) for r in rects}) == len(rects))
    S.ensure("extract.cells_inside_the_die_and_not_overlapping",
             sand(*[specs.box_inside(specs.box(r), (0, 0, W, H)) for r in rects],
                  *[specs.ovl(rects[i], rects[j]) <= 0 for i in range(len(rects)) for j in range(i + 1, len(rects))]))
    S.ensure("extract.ratios_between_0_and_1", sand(*[sand(v >= 0, v <= 1) for x in al.allocations for v in x.alloc.values()]))
    S.ensure("extract.no_cell_occupied_beyond_100_percent", sand(*[sum(x.alloc.values()) <= 1 for x in al.allocations]))
    S.ensure("extract.module_centres_inside_the_die",
             sand(*[sand(m.center.x >= 0, m.center.x <= W, m.center.y >= 0, m.center.y <= H) for m in n.modules]))
    # fixed module: keeps its rectangle and fully owns its cell
    fcell = [x for x in al.allocations if x.rect is frect]
    S.ensure("extract.fixed_module_fully_owns_its_cell", len(fcell) == 1 and list(fcell[0].alloc.keys()) == ["F"] and seq(fcell[0].alloc["F"], 1))
    S.ensure("extract.fixed_module_keeps_its_rectangle",
             sand(n.get_module("F").rectangles[0] is frect, seq(frect.center.x, fsnap[0]), seq(frect.center.y, fsnap[1]),
                  seq(frect.shape.w, fsnap[2]), seq(frect.shape.h, fsnap[3])))
    S.ensure("extract.fixed_module_not_in_other_cells", all("F" not in x.alloc for x in al.allocations if x.rect is not frect))
    if hsnap:
        hm = n.get_module("H")
        S.ensure("extract.hard_module_keeps_its_shapes",
                 len(hm.rectangles) == len(hsnap) and sand(*[sand(r is r0, seq(r.shape.w, w), seq(r.shape.h, h)) for r, (r0, x, y, w, h) in zip(hm.rectangles, hsnap)]))
        if len(hsnap) == 2:
            (ra, xa, ya, _, _), (rb, xb, yb, _, _) = hsnap
            dx, dy = ra.center.x - rb.center.x, ra.center.y - rb.center.y
            S.ensure("extract.hard_module_only_translated_or_mirrored",
                     sand(sor(seq(dx, xa - xb), sand(flip, seq(dx, xb - xa))), sor(seq(dy, ya - yb), sand(flip, seq(dy, yb - ya)))))
            if not flip:
                S.ensure("extract.unflippable_module_is_only_translated", sand(seq(dx, xa - xb), seq(dy, ya - yb)))
        # the area-weighted centroid of the rectangles is the module centre returned by the solver
        tot = sum(r.shape.w * r.shape.h for r in hm.rectangles)
        S.ensure("extract.hard_module_centred_at_its_centre",
                 sand(seq(sum(r.shape.w * r.shape.h * r.center.x for r in hm.rectangles), tot * hm.center.x),
                      seq(sum(r.shape.w * r.shape.h * r.center.y for r in hm.rectangles), tot * hm.center.y)))


@contract(P, functions=[G + "extract_solution", G + "get_value"], budget_s=900, exact_feas_ms=50,
          scope="3 cells x (soft, two fixed modules); all solver outputs satisfying the assumed contract")
def extract_solution_two_fixed_modules(S):
    """added after seed C03-3 (a slip that only shows with more than one fixed module): each fixed module keeps its own
    rectangle and fully owns exactly its own cell"""
    o = opt()
    E, EA = set_eps(S)
    stub_find_location(S, E, EA)
    W, H = S.real("W", pos=True), S.real("H", pos=True)
    mods = {"F": hard_module(S, "f", 1, True), "S": soft_module(S, "s", "scalar", True), "G": hard_module(S, "g", 1, True)}
    S.assume(ovl_r(mods["F"]["rectangles"][0], mods["G"]["rectangles"][0]) <= 0)
    o_n = S.call(Netlist, {"Modules": mods, "Nets": [["S", "F", "G"]]})
    if not o_n.ok:
        return
    n = o_n.value
    fr_, gr_ = n.get_module("F").rectangles[0], n.get_module("G").rectangles[0]
    c0 = mk_rect(S, "c0")
    for r in (c0, fr_, gr_):
        b = specs.box(r)
        S.assume(sand(b[0] >= 0, b[1] >= 0, b[2] <= W, b[3] <= H))
    S.assume(sand(specs.ovl(c0, fr_) <= 0, specs.ovl(c0, gr_) <= 0))
    order = S.choice("cell_order", ["cFG", "GcF", "FGc"])
    cells = {"c": c0, "F": fr_, "G": gr_}
    cl = [cells[k] for k in order]
    d = bare_die(S, W, H, [], [c0], [], [fr_, gr_])
    d._netlist = n
    th = S.real("threshold")
    S.assume(sand(th > 0, th <= 1))
    model = solver_output(S, n, cl, W, H, fixed_cell={"F": order.index("F"), "G": order.index("G")})
    snap = {k: (r.center.x, r.center.y, r.shape.w, r.shape.h) for k, r in (("F", fr_), ("G", gr_))}
    out = S.call(o.extract_solution, model, d, cl, th)
    S.ensure("extract2.no_raise", out.ok)
    if not out.ok:
        return
    die2, al, disp = out.value
    for nm, rect in (("F", fr_), ("G", gr_)):
        own = [x for x in al.allocations if x.rect is rect]
        S.ensure("extract2.each_fixed_module_fully_owns_its_own_cell", len(own) == 1 and list(own[0].alloc.keys()) == [nm] and seq(own[0].alloc[nm], 1))
        S.ensure("extract2.each_fixed_module_keeps_its_rectangle", sand(n.get_module(nm).rectangles[0] is rect, seq(rect.center.x, snap[nm][0]), seq(rect.center.y, snap[nm][1]),
                                                                         seq(rect.shape.w, snap[nm][2]), seq(rect.shape.h, snap[nm][3])))
        S.ensure("extract2.fixed_modules_not_in_other_cells", all(nm not in x.alloc for x in al.allocations if x.rect is not rect))
    S.ensure("extract2.ratios_between_0_and_1_and_no_cell_beyond_100_percent",
             sand(*[sand(v >= 0, v <= 1) for x in al.allocations for v in x.alloc.values()], *[sum(x.alloc.values()) <= 1 for x in al.allocations]))


@contract(P, functions=["frame.netlist.module.Module.recenter_rectangles"], params=[dict(k=k) for k in (1, 2, 3)])
def recenter_is_a_translation(S, k):
    E, EA = set_eps(S)
    stub_find_location(S, E, EA)
    if S.mode == "sym":
        S.patch(modmod, "create_stog", lambda rects: False)
        S.patch(Rectangle, "overlap", lambda self, r: specs.ovl(self, r) > EA)
    info = hard_module(S, "h", k, False, False)
    out0 = S.call(Netlist, {"Modules": {"H": info}})
    if not out0.ok:
        S.ensure("recenter.precondition_cover", out0.raised(AssertionError))
        return
    m = out0.value.modules[0]
    snap = [(r, r.center.x, r.center.y, r.shape.w, r.shape.h) for r in m.rectangles]
    cx, cy = S.real("cx"), S.real("cy")
    m.center = Point(cx, cy)
    out = S.call(m.recenter_rectangles)
    S.ensure("recenter.no_raise", out.ok)
    if not out.ok:
        return
    S.ensure("recenter.shapes_untouched", sand(*[sand(r.shape.w is not None, seq(r.shape.w, w), seq(r.shape.h, h)) for r, (r0, x, y, w, h) in zip(m.rectangles, snap)]))
    r0 = m.rectangles[0]
    S.ensure("recenter.same_translation_for_every_rectangle",
             sand(*[sand(seq(r.center.x - x, r0.center.x - snap[0][1]), seq(r.center.y - y, r0.center.y - snap[0][2])) for r, (_, x, y, w, h) in zip(m.rectangles, snap)]))
    tot = sum(w * h for (_, x, y, w, h) in snap)
    S.ensure("recenter.centroid_is_the_module_centre",
             sand(seq(sum(r.shape.w * r.shape.h * r.center.x for r in m.rectangles), tot * cx),
                  seq(sum(r.shape.w * r.shape.h * r.center.y for r in m.rectangles), tot * cy)))
    S.ensure("recenter.no_two_rectangles_share_a_point", len({id(r.center) for r in m.rectangles}) == k)


@contract(P, kind="enum", functions=["frame.netlist.module.Module.recenter_rectangles"],
          scope="bounded: 400 hard modules of 2-3 rectangles whose coordinates have seven and more decimals (thirds, sevenths, micrometres in metres), moved to random centres")
def recenter_is_rigid_on_awkward_numbers(replay=None):
    """added after the open seed r8-C10-2 (each rectangle's new centre rounded to six decimals): the double-precision counterpart of
    recenter_is_a_translation on numbers that are not multiples of 1e-6"""
    import random
    from frame.netlist.module import Module
    rng = random.Random(1010)
    failures, evals = [], 0
    for it in range(400):
        unit = rng.choice([1.0, 1.0, 1e-6, 1e3])
        base = [rng.choice([1 / 3, 2 / 7, 0.8333333, 1.2345678, 0.1, 2.5]) * unit for _ in range(8)]
        rects = [(10 * unit, 10 * unit, 4 * unit, 2 * unit), (10 * unit + base[0] - 2 * unit + 0.5 * unit, 11 * unit + base[1] / 2, 1 * unit, base[1])]
        if rng.random() < 0.5:
            rects.append((12 * unit + base[2] / 2, 10 * unit + base[3] / 4 - 0.5 * unit, base[2], 0.5 * unit))
        Rectangle.undefine_epsilon()
        Rectangle.set_epsilon(1e-9 * unit)
        m = Module("H", hard=True)
        for (x, y, w, h) in rects:
            m.add_rectangle(Rectangle(center=Point(x, y), shape=Shape(w, h)))
        m.setup()
        m.calculate_center_from_rectangles()
        before = [(r.center.x, r.center.y, r.shape.w, r.shape.h) for r in m.rectangles]
        m.center = Point((rng.uniform(3, 30) + 1 / 3) * unit, (rng.uniform(3, 30) + 1 / 7) * unit)
        evals += 1
        try:
            m.recenter_rectangles()
        except Exception as e:  # noqa
            failures.append(dict(clause="recenter_float.no_raise", observed=f"{type(e).__name__}: {e}", rects=rects))
            continue
        after = [(r.center.x, r.center.y, r.shape.w, r.shape.h) for r in m.rectangles]
        tol = 1e-12 * 40 * unit
        dx, dy = after[0][0] - before[0][0], after[0][1] - before[0][1]
        if any(abs((a[0] - b[0]) - dx) > tol or abs((a[1] - b[1]) - dy) > tol or a[2:] != b[2:] for a, b in zip(after, before)):
            failures.append(dict(clause="recenter_float.same_translation_for_every_rectangle_and_shapes_untouched", before=before, after=after, unit=unit))
        tot = sum(w * h for (_, _, w, h) in after)
        cx, cy = sum(w * h * x for (x, _, w, h) in after) / tot, sum(w * h * y for (_, y, w, h) in after) / tot
        if abs(cx - m.center.x) > 1e-9 * 40 * unit or abs(cy - m.center.y) > 1e-9 * 40 * unit:
            failures.append(dict(clause="recenter_float.centroid_is_the_module_centre", centre=[m.center.x, m.center.y], centroid=[cx, cy], unit=unit))
        if len(failures) >= 4:
            break
    Rectangle.undefine_epsilon()
    return dict(evaluations=evals, distinct_nontrivial=evals, exhaustive=False, failures=failures[:4],
                rule="a trunk with one or two branches at offsets that are thirds, sevenths or seven-decimal numbers, in units of 1, 1e-6 and 1e3; after "
                     "recenter_rectangles every rectangle moved by the same vector (1e-12 relative), shapes bit-identical, centroid at the new centre",
                samples=[dict(units=[1.0, 1e-6, 1e3])], bound="400 modules")


@contract(P, functions=[G + "optimize_allocation", G + "get_a", G + "get_neighbouring_cells"], budget_s=600, exact_feas_ms=50,
          scope="model construction on a concrete 2-cell design (the model is captured, nothing is solved)")
def model_pins_fixed_modules_and_bounds_variables(S):
    """facts of the model built by optimize_allocation that the assumed solver contract is applied to: fixed modules
    are constants (ratio of their own cell 1, others 0; centre), every other ratio is a variable within [0,1] or a constant in
    [0,1], centres are variables bounded by the die"""
    o = opt()
    from frame.die.die import Die
    captured = {}

    def capture(model, die, cells, threshold, max_iter=100, verbose=False, plotting_options=None):
        captured.update(model=model, cells=cells)
        raise _Stop()
    Rectangle.undefine_epsilon() if S.mode != "sym" else None
    n = Netlist("Modules: {S: {area: 6, center: [2, 2]}, F: {fixed: true, rectangles: [[7, 1, 2, 2]]}, H: {hard: true, rectangles: [[4, 3, 2, 2]]}}\nNets: [[S, F], [S, H, F]]")
    d = Die("8x4", n)
    al = amod.create_initial_allocation(d)
    disp = o.calculate_dispersions(n.modules, al, lambda x, y: x ** 2 + y ** 2)
    S.patch(o, "solve_and_extract_solution", capture)
    out = S.call(o.optimize_allocation, d, al, disp, 0.9, 0.5, lambda x, y: x ** 2 + y ** 2)
    S.ensure("model.construction_reaches_the_solver_call", out.raised(_Stop))
    if "model" not in captured:
        return
    model, cells = captured["model"], captured["cells"]
    fixed_idx = [i for i, c in enumerate(cells) if c.fixed]
    S.ensure("model.one_fixed_cell", len(fixed_idx) == 1)
    from gekko.gk_variable import GKVariable
    ok_f = all(isinstance(model.a["F"][c], float) and model.a["F"][c] == (1.0 if c in fixed_idx else 0.0) for c in range(len(cells)))
    S.ensure("model.fixed_module_ratios_are_constants_1_on_its_cell_0_elsewhere", ok_f)
    S.ensure("model.fixed_module_centre_is_a_constant", not isinstance(model.x["F"], GKVariable) and model.x["F"] == 7 and model.y["F"] == 1)
    others = [m for m in model.a if m != "F"]
    okv = True
    for m in others:
        for c in range(len(cells)):
            v = model.a[m][c]
            if isinstance(v, GKVariable):
                okv = okv and v.LOWER == 0 and v.UPPER == 1
            else:
                okv = okv and 0 <= v <= 1
    S.ensure("model.every_other_ratio_is_within_0_1", okv)
    S.ensure("model.centres_are_bounded_by_the_die",
             all(isinstance(model.x[m], GKVariable) and model.x[m].LOWER == 0 and model.x[m].UPPER == 8 and model.y[m].LOWER == 0 and model.y[m].UPPER == 4
                 for m in model.x if m != "F"))
    # the capacity constraint exists for EVERY cell, including the cells of fixed modules
    eqs = [str(e.value) if hasattr(e, "value") else str(e) for e in model.gekko._equations]
    cap = [e for e in eqs if "<=1" in e.replace(" ", "")]
    S.ensure("model.a_capacity_equation_per_cell", len(cap) == len(cells))


@contract(P, functions=[G + "optimize_allocation", G + "get_a", G + "get_neighbouring_cells"], budget_s=600, exact_feas_ms=50, crosscheck=False,
          params=[dict(case=c) for c in ("empty_far_cells", "overfull_frozen_cell")],
          scope="model construction on a concrete 4-cell design in which some cells have NO free ratio (the model is captured, nothing is solved)")
def model_constrains_cells_without_free_ratios(S, case):
    """added after seed C10-12 (capacity equation only where a ratio is a variable): the capacity constraint is stated for EVERY cell; where
    every ratio is a constant it is the decided fact `sum <= 1`: true for a cell that is not over-full, and FALSE (the model is infeasible and
    global floorplanning does not return) for a cell whose frozen ratios exceed 100% (GEKKO states a sum of constants through an intermediate variable)"""
    o = opt()
    from frame.die.die import Die
    captured = {}

    def capture(model, die, cells, threshold, max_iter=100, verbose=False, plotting_options=None):
        captured.update(model=model, cells=cells)
        raise _Stop()
    Rectangle.undefine_epsilon() if S.mode != "sym" else None
    if case == "empty_far_cells":
        n = Netlist("Modules: {A: {area: 2, center: [2, 2]}, B: {area: 3, center: [2.5, 2]}}\nNets: [[A, B]]")
        th = 0.9
    else:       # two modules that both fill more than half of the first two cells: every ratio there is above the threshold and frozen
        n = Netlist("Modules: {A: {area: 20, center: [4, 2]}, B: {area: 21, center: [4, 2]}}\nNets: [[A, B]]")
        th = 0.55
    d = Die("16x4", n)
    d.split_refinable_regions(2.0, 4)
    al = amod.create_initial_allocation(d)
    disp = o.calculate_dispersions(n.modules, al, lambda x, y: x ** 2 + y ** 2)
    S.patch(o, "solve_and_extract_solution", capture)
    out = S.call(o.optimize_allocation, d, al, disp, th, 0.5, lambda x, y: x ** 2 + y ** 2)
    S.ensure("model_frozen.construction_reaches_the_solver_call", out.raised(_Stop))
    if "model" not in captured:
        return
    model, cells = captured["model"], captured["cells"]
    from gekko.gk_variable import GKVariable
    frozen = [c for c in range(len(cells)) if not any(isinstance(model.a[m][c], GKVariable) for m in model.a)]
    S.ensure("model_frozen.the_instance_has_cells_without_free_ratios", len(cells) == 4 and len(frozen) >= 1)
    eqs = [str(e.value) if hasattr(e, "value") else str(e) for e in model.gekko._equations]
    cap = [e for e in eqs if "<=1" in e.replace(" ", "")]
    S.ensure("model_frozen.a_capacity_constraint_per_cell_also_where_every_ratio_is_a_constant", len(cap) == len(cells))
    if case == "overfull_frozen_cell":
        S.ensure("model_frozen.the_instance_has_an_overfull_frozen_cell", any(sum(model.a[m][c] for m in model.a) > 1 for c in frozen))


class _Stop(Exception):
    pass


# ---- bounded end-to-end leg: the real solver ---------------------------------------------------------------------------------

@contract(P, functions=[G + "glbfloor"], params=[dict(max_iter=m) for m in (None, 1, 2, 3)], budget_s=300, crosscheck=False,
          scope="the driver loop of glbfloor against recorders of its callees (create_initial_allocation, optimize_allocation, must_be_refined / refine): "
                "every sequence of refinement decisions, iteration limits 1..3 and none")
def glbfloor_returns_the_last_optimised_allocation(S, max_iter):
    """added after seeds C10-5/6: what glbfloor returns is always the output of an optimize_allocation call (never the raw initial
    allocation), every optimisation after the first one works on the refinement of the previous result, and the loop stops exactly
    when nothing must be refined or the limit is reached.  The feasibility of that output is the (assumed) solver contract + the
    extract_solution obligations."""
    o = opt()
    log = []

    class FakeAlloc:
        def __init__(self, tag):
            self.tag = tag

        def must_be_refined(self, th):
            asked = len([x for x in log if x[0] == 'must'])
            b = bool(S.symbool(f"must_{asked}")) if asked < 3 else False        # at most three refinements are ever requested
            log.append(("must", self.tag, b))
            return b

        def refine(self, th, levels=1):
            log.append(("refine", self.tag))
            return FakeAlloc(("refined", self.tag))

    die = types.SimpleNamespace(netlist=types.SimpleNamespace(modules=[]))

    def fake_opt(d, allocation, dispersions, threshold, alpha, dispersion_function, verbose=False, plotting_options=None):
        k = len([x for x in log if x[0] == "opt"])
        log.append(("opt", allocation.tag))
        return d, FakeAlloc(("optimised", k)), dispersions, ([], [])
    S.patch(o, "create_initial_allocation", lambda d, *a, **kw: FakeAlloc("initial"))
    S.patch(o, "calculate_dispersions", lambda *a, **kw: {})
    S.patch(o, "optimize_allocation", fake_opt)
    out = S.call(o.glbfloor, die, 0.9, 0.3, max_iter=max_iter)
    S.ensure("driver.no_raise", out.ok)
    if not out.ok:
        return
    d2, al = out.value
    opts = [x for x in log if x[0] == "opt"]
    S.ensure("driver.at_least_one_optimisation", len(opts) >= 1 and opts[0][1] == "initial")
    S.ensure("driver.returns_the_output_of_the_last_optimisation", d2 is die and isinstance(al, FakeAlloc) and al.tag == ("optimised", len(opts) - 1))
    S.ensure("driver.every_later_optimisation_works_on_the_refinement_of_the_previous_result",
             all(opts[k][1] == ("refined", ("optimised", k - 1)) for k in range(1, len(opts))))
    musts = [x for x in log if x[0] == "must"]
    S.ensure("driver.stops_when_nothing_must_be_refined_or_the_limit_is_reached",
             all(m[2] for m in musts[:-1]) and (max_iter is None or len(opts) <= max_iter) and
             (len(opts) == max_iter or (len(musts) >= 1 and musts[-1][2] is False)))


DESIGNS = {
    "soft_and_fixed": ("8x4", "Modules: {S0: {area: 6, center: [2, 2]}, S1: {area: 4, center: [5, 2]}, F: {fixed: true, rectangles: [[7, 1, 2, 2]]}}\nNets: [[S0, F], [S0, S1, 2]]"),
    "soft_overlapping_fixed": ("8x4", "Modules: {S0: {area: 6, center: [6.5, 1.5]}, S1: {area: 4, center: [2, 2]}, F: {fixed: true, rectangles: [[7, 1, 2, 2]]}}\nNets: [[S0, F], [S0, S1]]"),
    "hard_L_flippable": ("6x6", "Modules: {H: {hard: true, flip: true, rectangles: [[2, 2, 2, 2], [3.5, 1.5, 1, 1]]}, S: {area: 5, center: [4, 4]}, F: {fixed: true, rectangles: [[5.5, 0.5, 1, 1]]}}\nNets: [[H, S], [S, F]]"),
    "hard_two_rects": ("6x6", "Modules: {H: {hard: true, rectangles: [[2, 2, 2, 2], [2, 3.5, 1, 1]]}, S: {area: 4, center: [4.5, 4]}}\nNets: [[H, S]]"),
    "blockage_and_fixed": ("width: 8\nheight: 6\nregions: [[1, 5, 2, 2, '#']]\n", "Modules: {S0: {area: 8, center: [3, 2]}, S1: {area: 6, center: [6, 4]}, F: {fixed: true, rectangles: [[7.5, 0.5, 1, 1]]}}\nNets: [[S0, S1], [S1, F]]"),
    # added after seeds C10-5/6: modules that start on top of each other and nearly fill one cell of the initial grid (the initial allocation is
    # over-occupied although nothing must be refined), and a die that is too small (the solver fails: glbfloor must not return)
    "coincident_starts": ("4x4", "Modules: {A: {area: 3.9, center: [1, 1]}, B: {area: 3.85, center: [1, 1]}, C: {area: 3.9, center: [3, 3]}}\nNets: [[A, B, 2], [B, C]]"),
    "does_not_fit": ("4x4", "Modules: {S1: {area: 7, center: [1, 3]}, S2: {area: 6, center: [3, 1]}, F1: {fixed: true, rectangles: [[3, 3, 2, 2]]}}\nNets: [[S1, S2], [S2, F1]]"),
}


@contract(P, kind="enum", functions=[G + "glbfloor", G + "optimize_allocation", G + "extract_solution"],
          scope="bounded: concrete small designs through the real glbfloor with the real solver (APOPT via GEKKO, local)",
          params=[dict(name=k) for k in DESIGNS])
def end_to_end_with_the_real_solver(name, replay=None):
    o = opt()
    from frame.die.die import Die
    die_spec, net = DESIGNS[name]
    failures, evals = [], 0
    samples = []
    # the third setting starts from a NON-square initial grid (added after seed C10-7: rows and columns swapped in the grid put cells outside the die)
    for th, alpha, grid, iters in ((0.95, 0.3, (2, 2), 2), (0.7, 0.5, None, 1), (0.9, 0.3, (2, 3), 1)):
        Rectangle.undefine_epsilon()
        n = Netlist(net)
        d = Die(die_spec, n)
        if grid and not d.blockages and not d.fixed_regions:
            d.initial_grid(*grid)
        elif grid == (2, 3):
            continue            # the non-square grid needs a clean die
        else:
            d.split_refinable_regions(2.0, 3)
        before = {m.name: [(r.shape.w, r.shape.h, r.center.x, r.center.y) for r in m.rectangles] for m in n.modules}
        evals += 1
        try:
            with contextlib.redirect_stdout(io.StringIO()):
                d2, al = o.glbfloor(d, th, alpha, max_iter=iters)
        except Exception as e:  # noqa
            if "Solution Not Found" in str(e) or "not found" in str(e).lower():
                continue        # the property speaks about runs that return
            failures.append(dict(clause="e2e.glbfloor_does_not_crash", design=name, observed=f"{type(e).__name__}: {str(e)[:200]}"))
            continue
        W, H = d2.width, d2.height
        tol = 1e-4
        cells = [x.rect for x in al.allocations]
        for i, r in enumerate(cells):
            b = (r.center.x - r.shape.w / 2, r.center.y - r.shape.h / 2, r.center.x + r.shape.w / 2, r.center.y + r.shape.h / 2)
            if b[0] < -tol or b[1] < -tol or b[2] > W + tol or b[3] > H + tol:
                failures.append(dict(clause="e2e.cells_inside_the_die", design=name, cell=str(r)))
            for j in range(i + 1, len(cells)):
                if r.area_overlap(cells[j]) > tol:
                    failures.append(dict(clause="e2e.cells_do_not_overlap", design=name))
        for x in al.allocations:
            if any(v < -tol or v > 1 + tol for v in x.alloc.values()) or sum(x.alloc.values()) > 1 + 1e-2:
                failures.append(dict(clause="e2e.ratios_in_0_1_and_cell_not_over_occupied", design=name, cell=str(x.rect), alloc=dict(x.alloc)))
            if x.rect.fixed and (len(x.alloc) != 1 or abs(list(x.alloc.values())[0] - 1) > tol):
                failures.append(dict(clause="e2e.fixed_module_fully_owns_its_cells", design=name, cell=str(x.rect), alloc=dict(x.alloc)))
        for m in d2.netlist.modules:
            if m.center is None or not (-tol <= m.center.x <= W + tol and -tol <= m.center.y <= H + tol):
                failures.append(dict(clause="e2e.module_centres_inside_the_die", design=name, module=m.name, centre=str(m.center)))
            now = [(r.shape.w, r.shape.h, r.center.x, r.center.y) for r in m.rectangles]
            old = before[m.name]
            if m.is_fixed and now != old:
                failures.append(dict(clause="e2e.fixed_modules_keep_their_rectangles", design=name, module=m.name))
            if m.is_hard and not m.is_fixed and not m.is_terminal:
                if [(w, h) for w, h, _, _ in now] != [(w, h) for w, h, _, _ in old]:
                    failures.append(dict(clause="e2e.hard_modules_keep_their_shapes", design=name, module=m.name))
                for i in range(1, len(now)):
                    dx, dy = now[0][2] - now[i][2], now[0][3] - now[i][3]
                    ox, oy = old[0][2] - old[i][2], old[0][3] - old[i][3]
                    okx = abs(dx - ox) < 1e-6 or (m.flip and abs(dx + ox) < 1e-6)
                    oky = abs(dy - oy) < 1e-6 or (m.flip and abs(dy + oy) < 1e-6)
                    if not (okx and oky):
                        failures.append(dict(clause="e2e.hard_modules_only_translated_or_mirrored", design=name, module=m.name, before=old, after=now))
        samples.append(dict(design=name, threshold=th, cells=len(cells)))
    Rectangle.undefine_epsilon()
    return dict(evaluations=max(evals, 1), distinct_nontrivial=len(samples), exhaustive=False, failures=failures[:5],
                rule="concrete designs (soft + fixed, a soft module initially overlapping a fixed one, flippable L-shaped hard module, "
                     "blockage + fixed block) through glbfloor with two parameter settings; output checked against the property with "
                     "tolerance 1e-4 (1e-2 for the capacity, the solver's tolerance); runs where the solver reports no solution are skipped",
                samples=samples or [dict(design=name)], bound="7 designs x 3 settings")


@contract(P, canary=True, exact_feas_ms=50)
def canary_cells_always_full(S):
    o = opt()
    d, n, cells, W, H, mods = setup(S, "none", False)
    model = solver_output(S, n, cells, W, H)
    out = S.call(o.extract_solution, model, d, cells, 0.9)
    S.ensure("canary.every_cell_fully_occupied", sand(*[seq(sum(x.alloc.values()), 1) for x in out.value[1].allocations]) if out.ok else False)
