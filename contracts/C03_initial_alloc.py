"""C03 -- the initial allocation equals the exact geometric overlap (frame/allocation/allocation.py: initial_allocation,
_detect_fixed_rectangles, create_initial_allocation; frame/netlist: create_squares / create_square)."""
from vf.core import contract
from .alloc_common import *  # noqa
from .netlist_common import soft_module, hard_module, stub_find_location, Netlist, Module, modmod, nlmod
from .C11_die_refine import bare_die
from .C05_netlist import ovl_r

P = "C03"


def rect_of(r):
    """(x, y, w, h) list of a document rectangle or of a Rectangle"""
    return [r.center.x, r.center.y, r.shape.w, r.shape.h] if is_rect(r) else r[:4]


def cell_ovl(cell_rect, r):
    return ovl_r(rect_of(cell_rect), rect_of(r))


@contract(P, functions=["frame.netlist.module.Module.create_square", "frame.netlist.netlist.Netlist.create_squares"],
          params=[dict(area=a) for a in ("scalar", "two_regions")])
def create_squares(S, area):
    E, EA = set_eps(S)
    stub_find_location(S, E, EA)
    mods = {"A": soft_module(S, "a", area, True), "B": soft_module(S, "b", "scalar", True, None, 1)}
    n = Netlist({"Modules": mods})
    brect = n.get_module("B").rectangles[0]
    out = S.call(n.create_squares)
    S.ensure("create_squares.no_raise", out.ok)
    if not out.ok:
        return
    a = n.get_module("A")
    tot = sum(mods["A"]["area"].values()) if isinstance(mods["A"]["area"], dict) else mods["A"]["area"]
    S.ensure("create_squares.module_without_rectangles_gets_a_square_of_its_area_at_its_centre",
             len(a.rectangles) == 1 and sand(seq(a.rectangles[0].center.x, mods["A"]["center"][0]), seq(a.rectangles[0].center.y, mods["A"]["center"][1]),
                                             seq(a.rectangles[0].shape.w, a.rectangles[0].shape.h), a.rectangles[0].shape.w > 0,
                                             seq(a.rectangles[0].shape.w * a.rectangles[0].shape.h, tot)))
    S.ensure("create_squares.modules_with_rectangles_untouched", len(n.get_module("B").rectangles) == 1 and n.get_module("B").rectangles[0] is brect)
    S.ensure("create_squares.returns_the_squared_modules", [m.name for m in out.value] == ["A"])
    S.ensure("create_squares.netlist_rectangle_list_refreshed", len(n.rectangles) == 2)


def _netlist(S, kinds):
    mods = {}
    for i, k in enumerate(kinds):
        nm = f"M{i}"
        if k == "square":
            mods[nm] = soft_module(S, nm.lower(), "scalar", True)
        elif k == "soft1":
            mods[nm] = soft_module(S, nm.lower(), "scalar", False, None, 1)
        elif k == "soft2":
            mods[nm] = soft_module(S, nm.lower(), "scalar", False, None, 2)
        elif k == "hard1":
            mods[nm] = hard_module(S, nm.lower(), 1)
        elif k == "hard2":
            mods[nm] = hard_module(S, nm.lower(), 2)
        elif k == "fixed1":
            mods[nm] = hard_module(S, nm.lower(), 1, True)
    return mods


def _module_rects(S, info):
    """the module's shape: its rectangles, or the square of its area around its centre"""
    if info.get("rectangles"):
        return [r[:4] for r in info["rectangles"]]
    side = S.sqrt(info["area"])
    return [[info["center"][0], info["center"][1], side, side]]


@contract(P, functions=[A + "initial_allocation", A + "_detect_fixed_rectangles"], budget_s=900,
          params=[dict(kinds=list(k), zero=z) for k in (("square",), ("soft1",), ("soft2",), ("hard2",), ("square", "hard1"), ("soft1", "square"))
                  for z in (False, True)])
def initial_allocation_per_cell(S, kinds, zero):
    _initial_allocation_per_cell(S, kinds, zero)


@contract(P, tier="thorough", functions=[A + "initial_allocation", A + "_detect_fixed_rectangles"], budget_s=3000, shards=8, shard_depth=4,
          params=[dict(kinds=list(k), zero=z) for k in (("square", "soft2", "hard1"), ("soft2", "hard2"), ("square", "square", "soft1")) for z in (False, True)],
          scope="netlists of 3 modules / two 2-rectangle modules")
def initial_allocation_per_cell_more(S, kinds, zero):
    _initial_allocation_per_cell(S, kinds, zero)


def _initial_allocation_per_cell(S, kinds, zero):
    """initial_allocation on an allocation holding one arbitrary refinable cell (its loop over the cells is a flat map;
    shape checked on the AST): the cell's occupancy map is exactly {m: covered fraction of the cell}."""
    flatmap_or_note(S, Allocation.initial_allocation, 1)
    E, EA = set_eps(S)
    stub_find_location(S, E, EA)
    mods = _netlist(S, kinds)
    for info in mods.values():      # each module's own rectangles are pairwise disjoint (precondition of the property)
        rs = info.get("rectangles", [])
        for i in range(len(rs)):
            for j in range(i + 1, len(rs)):
                S.assume(ovl_r(rs[i], rs[j]) <= 0)
    n = Netlist({"Modules": mods})
    cell = mk_cell(S, "c", 0, False, S.choice("cell_region", ["_", "DSP"]))     # ground or specialised region of the die
    a = bare_allocation([cell])
    S.patch(amod, "Allocation", Capture)
    if S.mode == "sym":
        S.patch(Rectangle, "area_overlap", lambda self, r: ovl(self, r))     # C18 contract of area_overlap (spec term)
    out = S.call(a.initial_allocation, n, zero)
    S.ensure("initial_allocation.no_raise", out.ok)
    if not out.ok:
        return
    cap = out.value.captured
    S.ensure("initial_allocation.one_entry_per_refinable_cell", len(cap) == 1 and cap[0][0] is cell[0] and seq(cap[0][2], cell[2]))
    if len(cap) != 1:
        return
    al = cap[0][1]
    carea = cell[0].shape.w * cell[0].shape.h
    for nm, info in mods.items():
        frac = sum(cell_ovl(cell[0], r) for r in _module_rects(S, info)) / carea
        listed = nm in al
        S.ensure("initial_allocation.ratio_is_covered_fraction_of_the_cell", seq(al[nm], frac) if listed else True)
        S.ensure("initial_allocation.listed_iff_it_covers_part_of_the_cell_or_zero_entries_requested",
                 siff(listed, sor(zero, frac > 0)))
    S.ensure("initial_allocation.no_other_entries", set(al.keys()) <= set(mods.keys()))
    S.ensure("initial_allocation.ratios_nonnegative", sand(*[al[m] >= 0 for m in al]))
    single = [m for m in al if len(_module_rects(S, mods[m])) == 1]
    S.ensure("initial_allocation.ratio_at_most_1_for_single_rectangle_shapes", sand(*[al[m] <= 1 for m in single]))


@contract(P, functions=[A + "initial_allocation", A + "_detect_fixed_rectangles"], budget_s=900,
          params=[dict(zero=z, same_object=so) for z in (False, True) for so in (False, True)])
def fixed_module_owns_exactly_its_cells(S, zero, same_object):
    """cells = [the fixed module's own rectangle, an arbitrary disjoint refinable cell]; one soft module besides"""
    E, EA = set_eps(S)
    stub_find_location(S, E, EA)
    mods = {"F": hard_module(S, "f", 1, True), "S": soft_module(S, "s", "scalar", True)}
    n = Netlist({"Modules": mods})
    fr = mods["F"]["rectangles"][0]
    frect = n.get_module("F").rectangles[0] if same_object else Rectangle(center=Point(fr[0], fr[1]), shape=Shape(fr[2], fr[3]))
    other = mk_cell(S, "c", 0)
    S.assume(cell_ovl(other[0], fr) <= 0)
    a = bare_allocation([(frect, {}, 0), other])
    S.patch(amod, "Allocation", Capture)
    out = S.call(a.initial_allocation, n, zero)
    S.ensure("fixed.no_raise", out.ok)
    if not out.ok:
        return
    cap = out.value.captured
    owned = [d for d in cap if d[0] is frect]
    S.ensure("fixed.module_fully_owns_its_own_cell", len(owned) == 1 and list(owned[0][1].keys()) == ["F"] and
             seq(owned[0][1]["F"], 1) and owned[0][2] == 0 and frect.fixed)
    rest = [d for d in cap if d[0] is not frect]
    S.ensure("fixed.other_cells_listed_once", len(rest) == 1 and rest[0][0] is other[0] and not other[0].fixed)
    if len(rest) == 1:
        al = rest[0][1]
        S.ensure("fixed.fixed_module_not_listed_outside_its_cells", ("F" not in al) or (zero and seq(al["F"], 0)))


@contract(P, functions=[A + "initial_allocation", A + "_detect_fixed_rectangles"], budget_s=900,
          params=[dict(zero=z, order=o) for z in (False, True) for o in ("FG", "GF", "FcG")],
          scope="two fixed modules (one rectangle each, disjoint) + one soft module; cells = their rectangles (+ an arbitrary refinable cell), in every order")
def several_fixed_modules_each_own_their_own_cells(S, zero, order):
    """added after seed C03-3: with two fixed modules each cell goes to the module that covers it, not to the last one"""
    E, EA = set_eps(S)
    stub_find_location(S, E, EA)
    mods = {"F": hard_module(S, "f", 1, True), "S": soft_module(S, "s", "scalar", True), "G": hard_module(S, "g", 1, True)}
    fr, gr = mods["F"]["rectangles"][0], mods["G"]["rectangles"][0]
    S.assume(ovl_r(fr, gr) <= 0)
    n = Netlist({"Modules": mods})
    frect, grect = n.get_module("F").rectangles[0], n.get_module("G").rectangles[0]
    cells = {"F": (frect, {}, 0), "G": (grect, {}, 0)}
    if "c" in order:
        other = mk_cell(S, "c", 0)
        S.assume(sand(cell_ovl(other[0], fr) <= 0, cell_ovl(other[0], gr) <= 0))
        cells["c"] = other
    a = bare_allocation([cells[k] for k in order])
    S.patch(amod, "Allocation", Capture)
    out = S.call(a.initial_allocation, n, zero)
    S.ensure("fixed2.no_raise", out.ok)
    if not out.ok:
        return
    cap = out.value.captured
    for nm, rect in (("F", frect), ("G", grect)):
        owned = [d for d in cap if d[0] is rect]
        S.ensure("fixed2.each_fixed_module_fully_owns_exactly_its_own_cell", len(owned) == 1 and list(owned[0][1].keys()) == [nm] and
                 seq(owned[0][1][nm], 1) and rect.fixed)
    rest = [d for d in cap if d[0] is not frect and d[0] is not grect]
    S.ensure("fixed2.other_cells_listed_once_and_not_fixed", len(rest) == (1 if "c" in order else 0) and all(not d[0].fixed for d in rest))
    for d in rest:
        S.ensure("fixed2.fixed_modules_not_listed_outside_their_cells", all((f not in d[1]) or (zero and seq(d[1][f], 0)) for f in ("F", "G")))


@contract(P, functions=[A + "_detect_fixed_rectangles"], params=[dict(case=c) for c in ("partial", "missing")])
def fixed_module_on_incompatible_cells_rejected(S, case):
    """a cell partially covered by a fixed module, or a fixed module whose rectangle is no cell: rejected"""
    E, EA = set_eps(S)
    stub_find_location(S, E, EA)
    mods = {"F": hard_module(S, "f", 1, True)}
    n = Netlist({"Modules": mods})
    fr = mods["F"]["rectangles"][0]
    cell = mk_cell(S, "c", 0)
    frac = cell_ovl(cell[0], fr) / (cell[0].shape.w * cell[0].shape.h)
    if case == "partial":
        S.assume(sand(frac >= 1e-6, frac <= 1 - 1e-6))
    else:
        S.assume(frac < 1e-6)
    a = bare_allocation([cell])
    S.patch(amod, "Allocation", Capture)
    out = S.call(a.initial_allocation, n, False)
    S.ensure("fixed.incompatible_cells_rejected", out.raised(AssertionError))


@contract(P, functions=["frame.allocation.allocation.create_initial_allocation", A + "__init__"], budget_s=900,
          scope="bounded: die with 1 refinable + 1 fixed region, netlist with one soft (square) and the fixed module; real constructors",
          params=[dict(zero=z) for z in (False,)])
def create_initial_allocation_end_to_end(S, zero):
    E, EA = set_eps(S)
    stub_find_location(S, E, EA)
    mods = {"F": hard_module(S, "f", 1, True), "S": soft_module(S, "s", "scalar", True)}
    n = Netlist({"Modules": mods})
    fr = mods["F"]["rectangles"][0]
    g = mk_rect(S, "g")
    S.assume(sand(cell_ovl(g, fr) <= 0, g.center.x - g.shape.w / 2 >= 0, g.center.y - g.shape.h / 2 >= 0,
                  fr[0] - fr[2] / 2 >= 0, fr[1] - fr[3] / 2 >= 0))
    side = S.sqrt(mods["S"]["area"])
    sq = [mods["S"]["center"][0], mods["S"]["center"][1], side, side]
    S.assume(cell_ovl(g, sq) > 0)          # the soft module touches the refinable cell (so its allocated area is not zero)
    d = bare_die(S, S.real("W", pos=True), S.real("H", pos=True), [], [g], [], n.fixed_rectangles())
    d._netlist = n
    out = S.call(amod.create_initial_allocation, d, zero)
    S.ensure("create_initial_allocation.no_raise", out.ok)
    if not out.ok:
        return
    al = out.value
    S.ensure("create_initial_allocation.cells_are_refinable_plus_fixed_regions", al.num_rectangles == 2 and
             {id(x.rect) for x in al.allocations} == {id(g), id(n.fixed_rectangles()[0])})
    garea = g.shape.w * g.shape.h
    S.ensure("create_initial_allocation.area_allocated_equals_area_of_shape_on_the_cells",
             sand(seq(al.area("S"), cell_ovl(g, sq)), seq(al.area("F"), fr[2] * fr[3])))


@contract(P, canary=True)
def canary_ratio_is_always_one(S):
    E, EA = set_eps(S)
    mods = _netlist(S, ("square",))
    n = Netlist({"Modules": mods})
    cell = mk_cell(S, "c", 0)
    a = bare_allocation([cell])
    S.patch(amod, "Allocation", Capture)
    out = S.call(a.initial_allocation, n, True)
    S.ensure("canary.full_cell", seq(out.value.captured[0][1]["M0"], 1) if out.ok else False)
