"""C03 -- the initial allocation equals the exact geometric overlap (frame/allocation/allocation.py: initial_allocation,
_detect_fixed_rectangles, create_initial_allocation; frame/netlist: create_squares / create_square)."""
from vf.core import contract
from .alloc_common import *  # noqa
from .netlist_common import soft_module, hard_module, stub_find_location, Netlist, Module, modmod, nlmod
from .C11_die_refine import bare_die
from .C05_netlist import ovl_r

P = "C03"


def rect_of(r):
    """(x, y, w, h) list of a document rectangle or of a Rectangle"""
    return [r.center.x, r.center.y, r.shape.w, r.shape.h] if is_rect(r) else r[:4]


def cell_ovl(cell_rect, r):
    return ovl_r(rect_of(cell_rect), rect_of(r))


@contract(P, functions=["frame.netlist.module.Module.create_square", "frame.netlist.netlist.Netlist.create_squares"],
          params=[dict(area=a) for a in ("scalar", "two_regions")])
def create_squares(S, area):
    E, EA = set_eps(S)
    stub_find_location(S, E, EA)
    mods = {"A": soft_module(S, "a", area, True), "B": soft_module(S, "b", "scalar", True, None, 1)}
    n = Netlist({"Modules": mods})
    brect = n.get_module("B").rectangles[0]
    out = S.call(n.create_squares)
    S.ensure("create_squares.no_raise", out.ok)
    if not out.ok:
        return
    a = n.get_module("A")
    tot = sum(mods["A"]["area"].values()) if isinstance(mods["A"]["area"], dict) else mods["A"]["area"]
    S.ensure("create_squares.module_without_rectangles_gets_a_square_of_its_area_at_its_centre",
             len(a.rectangles) == 1 and sand(seq(a.rectangles[0].center.x, mods["A"]["center"][0]), seq(a.rectangles[0].center.y, mods["A"]["center"][1]),
                                             seq(a.rectangles[0].shape.w, a.rectangles[0].shape.h), a.rectangles[0].shape.w > 0,
                                             seq(a.rectangles[0].shape.w * a.rectangles[0].shape.h, tot)))
    S.ensure("create_squares.modules_with_rectangles_untouched", len(n.get_module("B").rectangles) == 1 and n.get_module("B").rectangles[0] is brect)
    S.ensure("create_squares.returns_the_squared_modules", [m.name for m in out.value] == ["A"])
    S.ensure("create_squares.netlist_rectangle_list_refreshed", len(n.rectangles) == 2)


def _netlist(S, kinds):
    mods = {}
    for i, k in enumerate(kinds):
        nm = f"M{i}"
        if k == "square":
            mods[nm] = soft_module(S, nm.lower(), "scalar", True)
        elif k == "soft1":
            mods[nm] = soft_module(S, nm.lower(), "scalar", False, None, 1)
        elif k == "soft2":
            mods[nm] = soft_module(S, nm.lower(), "scalar", False, None, 2)
        elif k == "hard1":
            mods[nm] = hard_module(S, nm.lower(), 1)
        elif k == "hard2":
            mods[nm] = hard_module(S, nm.lower(), 2)
        elif k == "fixed1":
            mods[nm] = hard_module(S, nm.lower(), 1, True)
    return mods


def _module_rects(S, info):
    """the module's shape: its rectangles, or the square of its area around its centre"""
    if info.get("rectangles"):
        return [r[:4] for r in info["rectangles"]]
    side = S.sqrt(info["area"])
    return [[info["center"][0], info["center"][1], side, side]]


@contract(P, functions=[A + "initial_allocation", A + "_detect_fixed_rectangles"], budget_s=900,
          params=[dict(kinds=list(k), zero=z) for k in (("square",), ("soft1",), ("soft2",), ("hard2",), ("square", "hard1"), ("soft1", "square"))
                  for z in (False, True)])
def initial_allocation_per_cell(S, kinds, zero):
    _initial_allocation_per_cell(S, kinds, zero)


@contract(P, tier="thorough", functions=[A + "initial_allocation", A + "_detect_fixed_rectangles"], budget_s=3000, shards=8, shard_depth=4,
          params=[dict(kinds=list(k), zero=z) for k in (("square", "soft2", "hard1"), ("soft2", "hard2"), ("square", "square", "soft1")) for z in (False, True)],
          scope="netlists of 3 modules / two 2-rectangle modules")
def initial_allocation_per_cell_more(S, kinds, zero):
    _initial_allocation_per_cell(S, kinds, zero)


def _initial_allocation_per_cell(S, kinds, zero):
    """initial_allocation on an allocation holding one arbitrary refinable cell (its loop over the cells is a flat map;
    shape checked on the AST): the cell's occupancy map is exactly {m: covered fraction of the cell}."""
    flatmap_or_note(S, Allocation.initial_allocation, 1)
    E, EA = set_eps(S)
    stub_find_location(S, E, EA)
    mods = _netlist(S, kinds)
    for info in mods.values():      # each module's own rectangles are pairwise disjoint (precondition of the property)
        rs = info.get("rectangles", [])
        for i in range(len(rs)):
            for j in range(i + 1, len(rs)):
                S.assume(ovl_r(rs[i], rs[j]) <= 0)
    n = Netlist({"Modules": mods})
    cell = mk_cell(S, "c", 0, False, S.choice("cell_region", ["_", "DSP"]))     # ground or specialised region of the die
    a = bare_allocation([cell])
    S.patch(amod, "Allocation", Capture)
    if S.mode == "sym":
        S.patch(Rectangle, "area_overlap", lambda self, r: ovl(self, r))     # C18 contract of area_overlap (spec term)
    out = S.call(a.initial_allocation, n, zero)
    S.ensure("initial_allocation.no_raise", out.ok)
    if not out.ok:
        return
    cap = out.value.captured
    S.ensure("initial_allocation.one_entry_per_refinable_cell", len(cap) == 1 and cap[0][0] is cell[0] and seq(cap[0][2], cell[2]))
    if len(cap) != 1:
        return
    al = cap[0][1]
    carea = cell[0].shape.w * cell[0].shape.h
    for nm, info in mods.items():
        frac = sum(cell_ovl(cell[0], r) for r in _module_rects(S, info)) / carea
        listed = nm in al
        S.ensure("initial_allocation.ratio_is_covered_fraction_of_the_cell", seq(al[nm], frac) if listed else True)
        S.ensure("initial_allocation.listed_iff_it_covers_part_of_the_cell_or_zero_entries_requested",
                 siff(listed, sor(zero, frac > 0)))
    S.ensure("initial_allocation.no_other_entries", set(al.keys()) <= set(mods.keys()))
    S.ensure("initial_allocation.ratios_nonnegative", sand(*[al[m] >= 0 for m in al]))
    single = [m for m in al if len(_module_rects(S, mods[m])) == 1]
    S.ensure("initial_allocation.ratio_at_most_1_for_single_rectangle_shapes", sand(*[al[m] <= 1 for m in single]))


@contract(P, functions=[A + "initial_allocation", A + "_detect_fixed_rectangles"], budget_s=900,
          params=[dict(zero=z, same_object=so) for z in (False, True) for so in (False, True)])
def fixed_module_owns_exactly_its_cells(S, zero, same_object):
    """cells = [the fixed module's own rectangle, an arbitrary disjoint refinable cell]; one soft module besides"""
    E, EA = set_eps(S)
    stub_find_location(S, E, EA)
    mods = {"F": hard_module(S, "f", 1, True), "S": soft_module(S, "s", "scalar", True)}
    n = Netlist({"Modules": mods})
    fr = mods["F"]["rectangles"][0]
    frect = n.get_module("F").rectangles[0] if same_object else Rectangle(center=Point(fr[0], fr[1]), shape=Shape(fr[2], fr[3]))
    other = mk_cell(S, "c", 0)
    S.assume(cell_ovl(other[0], fr) <= 0)
    a = bare_allocation([(frect, {}, 0), other])
    S.patch(amod, "Allocation", Capture)
    out = S.call(a.initial_allocation, n, zero)
    S.ensure("fixed.no_raise", out.ok)
    if not out.ok:
        return
    cap = out.value.captured
    owned = [d for d in cap if d[0] is frect]
    S.ensure("fixed.module_fully_owns_its_own_cell", len(owned) == 1 and list(owned[0][1].keys()) == ["F"] and
             seq(owned[0][1]["F"], 1) and owned[0][2] == 0 and frect.fixed)
    rest = [d for d in cap if d[0] is not frect]
    S.ensure("fixed.other_cells_listed_once", len(rest) == 1 and rest[0][0] is other[0] and not other[0].fixed)
    if len(rest) == 1:
        al = rest[0][1]
        S.ensure("fixed.fixed_module_not_listed_outside_its_cells", ("F" not in al) or (zero and seq(al["F"], 0)))


@contract(P, functions=[A + "initial_allocation", A + "_detect_fixed_rectangles"], budget_s=900,
          params=[dict(zero=z, order=o) for z in (False, True) for o in ("FG", "GF", "FcG")],
          scope="two fixed modules (one rectangle each, disjoint) + one soft module; cells = their rectangles (+ an arbitrary refinable cell), in every order")
def several_fixed_modules_each_own_their_own_cells(S, zero, order):
    """added after seed C03-3: with two fixed modules each cell goes to the module that covers it, not to the last one"""
    E, EA = set_eps(S)
    stub_find_location(S, E, EA)
    mods = {"F": hard_module(S, "f", 1, True), "S": soft_module(S, "s", "scalar", True), "G": hard_module(S, "g", 1, True)}
    fr, gr = mods["F"]["rectangles"][0], mods["G"]["rectangles"][0]
    S.assume(ovl_r(fr, gr) <= 0)
    n = Netlist({"Modules": mods})
    frect, grect = n.get_module("F").rectangles[0], n.get_module("G").rectangles[0]
    cells = {"F": (frect, {}, 0), "G": (grect, {}, 0)}
    if "c" in order:
        other = mk_cell(S, "c", 0)
        S.assume(sand(cell_ovl(other[0], fr) <= 0, cell_ovl(other[0], gr) <= 0))
        cells["c"] = other
    a = bare_allocation([cells[k] for k in order])
    S.patch(amod, "Allocation", Capture)
    out = S.call(a.initial_allocation, n, zero)
    S.ensure("fixed2.no_raise", out.ok)
    if not out.ok:
        return
    cap = out.value.captured
    for nm, rect in (("F", frect), ("G", grect)):
        owned = [d for d in cap if d[0] is rect]
        S.ensure("fixed2.each_fixed_module_fully_owns_exactly_its_own_cell", len(owned) == 1 and list(owned[0][1].keys()) == [nm] and
                 seq(owned[0][1][nm], 1) and rect.fixed)
    rest = [d for d in cap if d[0] is not frect and d[0] is not grect]
    S.ensure("fixed2.other_cells_listed_once_and_not_fixed", len(rest) == (1 if "c" in order else 0) and all(not d[0].fixed for d in rest))
    for d in rest:
        S.ensure("fixed2.fixed_modules_not_listed_outside_their_cells", all((f not in d[1]) or (zero and seq(d[1][f], 0)) for f in ("F", "G")))


@contract(P, functions=[A + "_detect_fixed_rectangles"], params=[dict(case=c) for c in ("partial", "missing")])
def fixed_module_on_incompatible_cells_rejected(S, case):
    """a cell partially covered by a fixed module, or a fixed module whose rectangle is no cell: rejected"""
    E, EA = set_eps(S)
    stub_find_location(S, E, EA)
    mods = {"F": hard_module(S, "f", 1, True)}
    n = Netlist({"Modules": mods})
    fr = mods["F"]["rectangles"][0]
    cell = mk_cell(S, "c", 0)
    frac = cell_ovl(cell[0], fr) / (cell[0].shape.w * cell[0].shape.h)
    if case == "partial":
        S.assume(sand(frac >= 1e-6, frac <= 1 - 1e-6))
    else:
        S.assume(frac < 1e-6)
    a = bare_allocation([cell])
    S.patch(amod, "Allocation", Capture)
    out = S.call(a.initial_allocation, n, False)
    S.ensure("fixed.incompatible_cells_rejected", out.raised(AssertionError))


@contract(P, functions=["frame.allocation.allocation.create_initial_allocation", A + "__init__"], budget_s=900,
          scope="bounded: die with 1 refinable + 1 fixed region, netlist with one soft (square) and the fixed module; real constructors",
          params=[dict(zero=z) for z in (False,)])
def create_initial_allocation_end_to_end(S, zero):
    E, EA = set_eps(S)
    stub_find_location(S, E, EA)
    mods = {"F": hard_module(S, "f", 1, True), "S": soft_module(S, "s", "scalar", True)}
    n = Netlist({"Modules": mods})
    fr = mods["F"]["rectangles"][0]
    g = mk_rect(S, "g")
    S.assume(sand(cell_ovl(g, fr) <= 0, g.center.x - g.shape.w / 2 >= 0, g.center.y - g.shape.h / 2 >= 0,
                  fr[0] - fr[2] / 2 >= 0, fr[1] - fr[3] / 2 >= 0))
    side = S.sqrt(mods["S"]["area"])
    sq = [mods["S"]["center"][0], mods["S"]["center"][1], side, side]
    S.assume(cell_ovl(g, sq) > 0)          # the soft module touches the refinable cell (so its allocated area is not zero)
    d = bare_die(S, S.real("W", pos=True), S.real("H", pos=True), [], [g], [], n.fixed_rectangles())
    d._netlist = n
    out = S.call(amod.create_initial_allocation, d, zero)
    S.ensure("create_initial_allocation.no_raise", out.ok)
    if not out.ok:
        return
    al = out.value
    S.ensure("create_initial_allocation.cells_are_refinable_plus_fixed_regions", al.num_rectangles == 2 and
             {id(x.rect) for x in al.allocations} == {id(g), id(n.fixed_rectangles()[0])})
    garea = g.shape.w * g.shape.h
    S.ensure("create_initial_allocation.area_allocated_equals_area_of_shape_on_the_cells",
             sand(seq(al.area("S"), cell_ovl(g, sq)), seq(al.area("F"), fr[2] * fr[3])))


@contract(P, canary=True)
def canary_ratio_is_always_one(S):
    E, EA = set_eps(S)
    mods = _netlist(S, ("square",))
    n = Netlist({"Modules": mods})
    cell = mk_cell(S, "c", 0)
    a = bare_allocation([cell])
    S.patch(amod, "Allocation", Capture)
    out = S.call(a.initial_allocation, n, True)
    S.ensure("canary.full_cell", seq(out.value.captured[0][1]["M0"], 1) if out.ok else False)


# ---- bounded leg: larger concrete designs end to end (the symbolic runs hold one arbitrary cell and <= 3 modules) ------------------------

def _ov(a, b):
    """overlap area of two boxes (x0, y0, x1, y1)"""
    w = min(a[2], b[2]) - max(a[0], b[0])
    h = min(a[3], b[3]) - max(a[1], b[1])
    return w * h if w > 0 and h > 0 else 0.0


def _bx(cx, cy, w, h):
    return (cx - w / 2, cy - h / 2, cx + w / 2, cy + h / 2)


def _design(rng):
    """die with blockages / specialised regions on an integer lattice + netlist (soft squares, soft / hard with rectangles, fixed blocks)"""
    W, H = rng.randint(8, 16), rng.randint(6, 12)
    taken = []

    def free_box(w, h, tries=40):
        for _ in range(tries):
            x, y = rng.randint(0, W - w), rng.randint(0, H - h)
            b = (x, y, x + w, y + h)
            if all(_ov(b, t) == 0 for t in taken):
                taken.append(b)
                return b
        return None
    regions = []
    for tag in rng.sample(["#", "DSP", "BRAM", "#"], rng.randint(0, 3)):
        b = free_box(rng.randint(1, 3), rng.randint(1, 3))
        if b:
            regions.append([(b[0] + b[2]) / 2, (b[1] + b[3]) / 2, b[2] - b[0], b[3] - b[1], tag])
    mods, shapes = {}, {}
    for i in range(rng.randint(3, 7)):
        nm = f"M{i}"
        kind = rng.choice(["square", "square", "soft_rects", "hard", "fixed", "fixed"])
        if kind == "fixed":
            b = free_box(rng.randint(1, 3), rng.randint(1, 2))
            if b is None:
                kind = "square"
            else:
                mods[nm] = {"fixed": True, "rectangles": [[(b[0] + b[2]) / 2, (b[1] + b[3]) / 2, b[2] - b[0], b[3] - b[1]]]}
                shapes[nm] = ("fixed", [b])
                continue
        if kind == "square":
            a = rng.choice([1, 2.25, 4, 6.25, 9])
            c = [rng.randint(0, 2 * W) / 2, rng.randint(0, 2 * H) / 2]            # may stick out of the die
            mods[nm] = {"area": a, "center": c}
            s = a ** 0.5
            shapes[nm] = ("soft", [_bx(c[0], c[1], s, s)])
        else:
            x, y = rng.randint(1, W - 3), rng.randint(1, H - 3)
            rs = [[x + 1.0, y + 0.5, 2.0, 1.0]] + ([[x + 0.5, y + 1.5, 1.0, 1.0]] if rng.random() < 0.6 else [])      # disjoint: an L
            if kind == "hard":
                mods[nm] = {"hard": True, "rectangles": rs}
            else:
                mods[nm] = {"area": 3.0, "rectangles": rs}
            shapes[nm] = ("soft", [_bx(*r) for r in rs])
    names = list(mods)
    doc = {"Modules": mods, "Nets": [names[:2]] if len(names) >= 2 else []}
    die = {"width": W, "height": H}
    if regions:
        die["regions"] = regions
    # the same design in other units (added after seed C03-14: exact comparison of a fixed module's cell coverage): decimal factors make every
    # coordinate a number that is not representable in binary
    f = rng.choice([1, 1, 0.1, 0.7, 0.01])
    if f != 1:
        die = {"width": W * f, "height": H * f, **({"regions": [[v * f for v in r[:4]] + [r[4]] for r in regions]} if regions else {})}
        for nm, m in mods.items():
            if "rectangles" in m:
                m["rectangles"] = [[v * f for v in r[:4]] + r[4:] for r in m["rectangles"]]
            if "center" in m:
                m["center"] = [v * f for v in m["center"]]
            if "area" in m:
                m["area"] = m["area"] * f * f
        shapes = {nm: (k, [tuple(v * f for v in b) for b in bs]) for nm, (k, bs) in shapes.items()}
    return die, doc, shapes, rng.choice([0, 0, 3, 7])


@contract(P, kind="enum", functions=["frame.allocation.allocation.create_initial_allocation", A + "initial_allocation", A + "_detect_fixed_rectangles",
                                     "frame.netlist.netlist.Netlist.create_squares", "frame.die.die.Die.floorplanning_rectangles"],
          scope="bounded: concrete dies (blockages, specialised regions, 0-3 fixed modules, optionally refined) x netlists of 3-7 modules, both values of include-zero",
          params=[dict(chunk=i) for i in range(8)])
def larger_designs_end_to_end(chunk, replay=None):
    import os
    import random
    from frame.die.die import Die
    write_yaml = lambda d: __import__("json").dumps(d, indent=1)  # noqa: E731  input documents are written WITHOUT the library (JSON is a subset of YAML): the harness must not depend on the code under test
    tier = os.environ.get("VERIF_TIER", "quick")
    rng = random.Random(300 + chunk + 100 * int(os.environ.get("VERIF_SEED", "0") or 0))
    n_des = 25 if tier != "thorough" else 400
    failures, evals, nontriv, samples, nfixed = [], 0, 0, [], {}
    for it in range(n_des):
        if replay:
            die_doc, doc, shapes, refine_n, zero_opts = replay["die"], replay["netlist"], {k: (v[0], [tuple(b) for b in v[1]]) for k, v in replay["shapes"].items()}, replay["refine"], [replay["zero"]]
        elif it == 0 and chunk == 0:
            # the recorded design of the known finding C03-occupancy-above-1-by-rounding: it is reported on every run, and stops being
            # reported (no KNOWN-FINDING line) once the library is repaired
            import json as _json
            kd = _json.load(open(os.path.join(os.path.dirname(os.path.abspath(__file__)), "c03_known_design.json")))
            die_doc, doc, shapes, refine_n, zero_opts = kd["die"], kd["netlist"], {k: (v[0], [tuple(b) for b in v[1]]) for k, v in kd["shapes"].items()}, kd["refine"], [kd["zero"]]
        else:
            die_doc, doc, shapes, refine_n = _design(rng)
            zero_opts = [False, True]
        for zero in zero_opts:
            info = dict(die=die_doc, netlist=doc, shapes={k: [v[0], [list(b) for b in v[1]]] for k, v in shapes.items()}, refine=refine_n, zero=zero)
            Rectangle.undefine_epsilon()
            try:
                n = Netlist(write_yaml(doc))
                d = Die(write_yaml(die_doc), n)
                if refine_n:
                    # composition on ONE die object: allocate, refine the die, allocate again (added after seed C03-6: a memo keyed by the
                    # die's identity returned the allocation of the unrefined die)
                    try:
                        amod.create_initial_allocation(d, zero)
                    except Exception:  # noqa: judged below, on the refined die
                        pass
                    d.split_refinable_regions(2.0, refine_n)
            except AssertionError:
                break           # the generator made an inconsistent design (e.g. module rectangles overlapping): not this property's business
            refinable, fixed = d.floorplanning_rectangles()
            cells = [(_bx(r.center.x, r.center.y, r.shape.w, r.shape.h), False) for r in refinable] + [(_bx(r.center.x, r.center.y, r.shape.w, r.shape.h), True) for r in fixed]
            # expected allocation from the definition
            exp = []
            for box_, is_fixed in cells:
                ca = (box_[2] - box_[0]) * (box_[3] - box_[1])
                if is_fixed:
                    owner = [nm for nm, (k, bs) in shapes.items() if k == "fixed" and any(abs(_ov(box_, b) - ca) < 1e-9 for b in bs)]
                    exp.append({owner[0]: 1.0} if len(owner) == 1 else None)
                else:
                    e = {}
                    for nm, (k, bs) in shapes.items():
                        if k == "fixed":
                            if zero:
                                e[nm] = 0.0
                            continue
                        frac = sum(_ov(box_, b) for b in bs) / ca
                        if frac > 0 or zero:
                            e[nm] = frac
                    exp.append(e)
            touches = {nm: any((k == "fixed") or any(_ov(c[0], b) > 1e-12 * (c[0][2] - c[0][0]) * (c[0][3] - c[0][1]) for c in cells if not c[1]) for b in bs)
                       for nm, (k, bs) in shapes.items()}
            if not zero and not all(touches.values()):
                continue        # the property restricts the option to designs in which every module touches some cell
            evals += 1
            nf = sum(1 for v in shapes.values() if v[0] == "fixed")
            nfixed[nf] = nfixed.get(nf, 0) + 1
            try:
                al = amod.create_initial_allocation(d, zero)
            except Exception as e:  # noqa
                failures.append(dict(clause="big.initial_allocation_succeeds", observed=f"{type(e).__name__}: {e}", **info))
                continue
            nontriv += 1
            got = {}
            for x in al.allocations:
                got[tuple(round(v, 9) for v in _bx(x.rect.center.x, x.rect.center.y, x.rect.shape.w, x.rect.shape.h))] = dict(x.alloc)
            bad = None
            if len(got) != len(cells):
                bad = "one entry per refinable or fixed cell"
            for (box_, is_fixed), e in zip(cells, exp):
                g = got.get(tuple(round(v, 9) for v in box_))
                if g is None or e is None:
                    bad = bad or "cell missing / fixed cell without a unique owner"
                    continue
                # a module whose overlap with the cell is rounding noise (decimal units) may or may not be listed
                if (set(g) != set(e)) if zero else any((m in g) != (m in e) and max(g.get(m, 0.0), e.get(m, 0.0)) > 1e-9 for m in set(g) | set(e)):
                    bad = bad or f"modules listed in cell {box_}: {sorted(g)} instead of {sorted(e)}"
                elif any(abs(g.get(m, 0.0) - e.get(m, 0.0)) > 1e-9 for m in set(g) | set(e)):
                    bad = bad or f"ratios in cell {box_}: {g} instead of {e}"
            for nm, (k, bs) in shapes.items():
                want = sum(_ov(c[0], b) for c in cells for b in bs if (not c[1]) or k == "fixed") if k != "fixed" else sum((b[2] - b[0]) * (b[3] - b[1]) for b in bs)
                if k != "fixed":
                    want = sum(_ov(c[0], b) for c in cells if not c[1] for b in bs)
                try:
                    have = al.area(nm)
                except KeyError:
                    noise = 1e-12 * (cells[0][0][2] - cells[0][0][0]) * (cells[0][0][3] - cells[0][0][1])     # an overlap that is rounding noise of decimal units counts as none
                    have = None if (zero or want > noise) else want        # without zero entries a module that touches nothing is simply absent
                if have is None or abs(have - want) > 1e-9 * max(1.0, want):
                    bad = bad or f"area allocated to {nm}: {have} instead of {want}"
            if not bad:
                # a second call gives an equal, independent allocation (the first result may be edited by its caller)
                for x in al.allocations:
                    x.alloc.clear()
                al2 = amod.create_initial_allocation(d, zero)
                got2 = {tuple(round(v, 9) for v in _bx(x.rect.center.x, x.rect.center.y, x.rect.shape.w, x.rect.shape.h)): dict(x.alloc) for x in al2.allocations}
                if al2 is al or got2 != got:
                    bad = "a second call on the same die does not return an equal, independent allocation"
            if bad:
                failures.append(dict(clause="big.allocation_equals_the_geometric_overlap", observed=bad, **info))
            if not samples:
                samples.append(dict(die=die_doc, modules=list(doc["Modules"].items())[:3], cells=len(cells)))
        if len([f_ for f_ in failures if 'Invalid allocation for' not in str(f_.get('observed', ''))]) >= 4 or replay:      # failures of the recorded known finding do not end the run early
            break
    Rectangle.undefine_epsilon()
    return dict(evaluations=evals, distinct_nontrivial=nontriv, exhaustive=False, failures=sorted(failures, key=lambda f_: 'Invalid allocation for' in str(f_.get('observed', '')))[:4] + [f_ for f_ in failures if 'Invalid allocation for' in str(f_.get('observed', ''))][:1],
                rule="random dies on an integer lattice (up to 3 blockages / specialised regions, up to 3 fixed modules disjoint from them, optionally "
                     "refined into >= 3 or 7 regions) with netlists of 3-7 modules (squares from area and centre possibly sticking out, L-shaped soft and "
                     "hard modules, fixed blocks), with and without zero entries (the latter only when every module touches a cell); expected allocation "
                     f"by interval arithmetic from the documents; designs by number of fixed modules: {nfixed}", samples=samples, bound=f"{n_des} designs per chunk")
