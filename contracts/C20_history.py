"""C20 -- results do not depend on what the process did before."""
import ast
import contextlib
import inspect
import io
import itertools
import json
import os
import random
import subprocess
import sys
import textwrap

from vf import core, symx
from vf.core import contract
from vf.specs import box, ovl, box_inside, interiors_disjoint
from .common import *  # noqa
from .C06_stog import LOC, loc_idx

P = "C20"
REVIEWED_STATE = {
    "frame.geometry.geometry": ["Rectangle._distance_epsilon", "Rectangle._area_epsilon"],
    "tools.rect.pseudobool": ["memory", "mmap", "default:Ineq.__init__.lhs", "default:Ineq.__init__.rhs"],
    "tools.legalfloor.expression_tree": ["epsilon", "debug_print", "named_variables"],
    "tools.floorset_parser.floor_set_manager.strop": ["default:Strop.__init__.height", "default:Strop.__init__.width", "EMPTY_INTERVAL"],
}
MODULES = ["frame.geometry.geometry", "frame.utils.utils", "frame.netlist.netlist", "frame.netlist.module", "frame.netlist.netlist_types",
           "frame.netlist.yaml_read_netlist", "frame.netlist.yaml_write_netlist", "frame.die.die", "frame.die.yaml_parse_die",
           "frame.allocation.allocation", "tools.rect.pseudobool", "tools.rect.satmanager", "tools.legalfloor.expression_tree",
           "tools.legalfloor.model", "tools.floorset_parser.floor_set_manager.strop"]


def inventory(modname):
    """process-wide mutable state of a module, found mechanically on its AST: module-level bindings to mutable values or
    rebound through `global`, class attributes assigned through the class name, mutable default arguments"""
    import importlib
    mod = importlib.import_module(modname)
    tree = ast.parse(inspect.getsource(mod))
    found = set()
    globals_rebound = {n for node in ast.walk(tree) if isinstance(node, ast.Global) for n in node.names}
    classes = {n.name for n in tree.body if isinstance(n, ast.ClassDef)}
    for st in tree.body:
        targets = []
        if isinstance(st, ast.Assign):
            targets = [t.id for t in st.targets if isinstance(t, ast.Name)]
            val = st.value
        elif isinstance(st, ast.AnnAssign) and isinstance(st.target, ast.Name):
            targets, val = [st.target.id], st.value
        else:
            continue
        for t in targets:
            mutable = isinstance(val, (ast.List, ast.Dict, ast.Set, ast.ListComp, ast.DictComp)) or \
                (isinstance(val, ast.Call) and isinstance(val.func, ast.Name) and val.func.id in ("list", "dict", "set", "deque", "OrderedDict")) or \
                (isinstance(val, ast.Call) and isinstance(val.func, ast.Name) and val.func.id in classes)
            if (mutable or t in globals_rebound) and not t.isupper() or (mutable and t.isupper() and isinstance(val, ast.Call)):
                if not (t[0].isupper() and not mutable):
                    found.add(t)
    for g in globals_rebound:
        found.add(g)
    # class attributes written through the class:  Cls.attr = ...
    for node in ast.walk(tree):
        if isinstance(node, (ast.Assign, ast.AugAssign)):
            ts = node.targets if isinstance(node, ast.Assign) else [node.target]
            for t in ts:
                for sub in ast.walk(t):
                    if isinstance(sub, ast.Attribute) and isinstance(sub.value, ast.Name) and sub.value.id in classes and isinstance(sub.ctx, ast.Store):
                        found.add(f"{sub.value.id}.{sub.attr}")
    # mutable default arguments
    for node in ast.walk(tree):
        if isinstance(node, ast.ClassDef):
            for f in node.body:
                if isinstance(f, ast.FunctionDef):
                    _defaults(f, f"{node.name}.{f.name}", found)
    for f in tree.body:
        if isinstance(f, ast.FunctionDef):
            _defaults(f, f.name, found)
    return sorted(found)


def _defaults(f, qual, found):
    args = f.args.args[len(f.args.args) - len(f.args.defaults):]
    for a, d in zip(args, f.args.defaults):
        if isinstance(d, (ast.List, ast.Dict, ast.Set)) or (isinstance(d, ast.Call) and isinstance(d.func, ast.Name) and d.func.id not in ("float", "int", "str", "bool", "tuple", "frozenset")):
            found.add(f"default:{qual}.{a.arg}")


@contract(P, kind="enum", functions=[m + ".*" for m in MODULES], scope="static inventory of process-wide state of 15 library modules")
def process_wide_state_inventory(replay=None):
    """every piece of process-wide mutable state is listed; items outside the reviewed inventory (each reviewed item is covered
    by a non-interference contract or a differential probe) are written into the evidence as a WARNING -- a new global is not a
    violation by itself, the differential legs decide whether it changes any answer"""
    failures, evals, inv, unreviewed = [], 0, {}, {}
    with contextlib.redirect_stdout(io.StringIO()):
        for m in MODULES:
            evals += 1
            got = inventory(m)
            inv[m] = got
            new = [g for g in got if g not in REVIEWED_STATE.get(m, [])]
            if new:
                unreviewed[m] = new      # not a violation by itself: recorded; the differential legs decide
    return dict(evaluations=evals, distinct_nontrivial=sum(1 for v in inv.values() if v) + 2, exhaustive=True, failures=failures,
                rule="AST inventory (module-level mutable bindings, names rebound through `global`, class attributes stored through the class, "
                     "mutable default arguments) compared with the reviewed list", samples=[inv], bound="15 modules", extra=dict(inventory=inv, unreviewed_items_WARNING=unreviewed))


# ---- the class-wide tolerances do not change any answer (relational / 2-safety obligations) -----------------------------------

def two_tolerances(S):
    """two arbitrary settings of the class-wide tolerances, both at most EMAX / EAMAX (a history of designs within a factor
    1000 of the probed one gives tolerances within a bounded range)"""
    EM, EAM = S.real("Emax", pos=True), S.real("EAmax", pos=True)
    E1, E2 = S.real("E1", pos=True), S.real("E2", pos=True)
    A1, A2 = S.real("EA1", nonneg=True), S.real("EA2", nonneg=True)
    S.assume(sand(E1 <= EM, E2 <= EM, A1 <= EAM, A2 <= EAM))
    return (E1, A1), (E2, A2), EM, EAM


def separated(vals, EM):
    """coordinates that the code compares are equal or differ by more than the largest tolerance (the designs are not
    within rounding distance of a decision boundary)"""
    return sand(*[sor(seq(a, b), a - b > 2 * EM, b - a > 2 * EM) for a, b in itertools.combinations(vals, 2)])


def run_under(S, tol, fn):
    S.patch(Rectangle, "_distance_epsilon", tol[0])
    S.patch(Rectangle, "_area_epsilon", tol[1])
    return S.call(fn)


def coords(rects):
    xs, ys = [], []
    for r in rects:
        b = box(r)
        xs += [b[0], b[2]]
        ys += [b[1], b[3]]
    return xs, ys


@contract(P, functions=["frame.geometry.geometry.Rectangle.touches", "frame.geometry.geometry.Rectangle.overlap", "frame.geometry.geometry.Rectangle.find_location"])
def kernel_predicates_independent_of_the_tolerance(S):
    t1, t2, EM, EAM = two_tolerances(S)
    a, b = mk_rect(S, "a"), mk_rect(S, "b")
    xs, ys = coords([a, b])
    S.assume(sand(separated(xs, EM), separated(ys, EM)))
    ov = ovl(a, b)
    S.assume(sor(seq(ov, 0), ov > EAM))
    for nm, f in (("touches", lambda: a.touches(b)), ("overlap", lambda: a.overlap(b)), ("find_location", lambda: a.find_location(b))):
        o1 = run_under(S, t1, f)
        o2 = run_under(S, t2, f)
        S.ensure(nm + ".same_answer_under_any_two_tolerances", o1.ok and o2.ok and o1.value == o2.value)


@contract(P, functions=["frame.geometry.geometry.gather_boundaries"], params=[dict(n=n) for n in (1, 2)], budget_s=600)
def gather_boundaries_independent_of_the_tolerance(S, n):
    t1, t2, EM, EAM = two_tolerances(S)
    rs = [mk_rect(S, f"r{i}") for i in range(n)]
    xs, ys = coords(rs)
    S.assume(sand(separated(xs, EM), separated(ys, EM)))
    o1 = run_under(S, t1, lambda: geo.gather_boundaries(rs))
    o2 = run_under(S, t2, lambda: geo.gather_boundaries(rs))
    S.ensure("gather_boundaries.no_raise", o1.ok and o2.ok)
    if o1.ok and o2.ok:
        (x1, y1), (x2, y2) = o1.value, o2.value
        S.ensure("gather_boundaries.same_lines_under_any_two_tolerances",
                 len(x1) == len(x2) and len(y1) == len(y2) and sand(*[seq(p, q) for p, q in zip(x1 + y1, x2 + y2)]))


@contract(P, functions=["frame.geometry.geometry.create_stog"], budget_s=900, shards=4, shard_depth=3)
def recognition_independent_of_the_tolerance(S):
    t1, t2, EM, EAM = two_tolerances(S)
    rs = [mk_rect(S, f"r{i}") for i in range(2)]
    xs, ys = coords(rs)
    S.assume(sand(separated(xs, EM), separated(ys, EM)))
    ov = ovl(rs[0], rs[1])
    S.assume(sor(seq(ov, 0), ov > EAM))
    l1 = list(rs)
    o1 = run_under(S, t1, lambda: geo.create_stog(l1))
    roles1 = [r.location for r in rs]
    l2 = list(rs)
    o2 = run_under(S, t2, lambda: geo.create_stog(l2))
    roles2 = [r.location for r in rs]
    S.ensure("create_stog.same_verdict_order_and_roles_under_any_two_tolerances",
             o1.ok and o2.ok and o1.value == o2.value and all(p is q for p, q in zip(l1, l2)) and roles1 == roles2)


@contract(P, functions=["frame.die.die.Die._check_rectangles", "frame.die.die.Die.__init__"], params=[dict(k=k) for k in (1, 2)], budget_s=900)
def die_verdict_depends_only_on_overlap_tolerance(S, k):
    """The die's self-check uses the die's OWN epsilon for the inside and area tests; only the pairwise overlap test uses the
    class-wide area tolerance.  So under two arbitrary class-wide settings the verdict is the same as soon as the pairwise
    overlaps are separated -- with NO separation assumption on the inside / area-sum tests."""
    from .C01_die import bare_die as bare_die1
    t1, t2, EM, EAM = two_tolerances(S)
    W, H = S.real("W", pos=True), S.real("H", pos=True)
    rs = [mk_rect(S, f"r{i}", "A") for i in range(k)]
    for i in range(k):
        for j in range(i + 1, k):
            ov = ovl(rs[i], rs[j])
            S.assume(sor(seq(ov, 0), ov > EAM))
    d = bare_die1(W, H, rs, [], [], [])
    o1 = run_under(S, t1, d._check_rectangles)
    o2 = run_under(S, t2, d._check_rectangles)
    S.ensure("die_selfcheck.same_verdict_under_any_two_class_wide_tolerances", o1.ok == o2.ok)


@contract(P, functions=["frame.die.die.Die.__init__", "frame.die.die.Die._check_rectangles"], params=[dict(k=k) for k in (0, 1)], budget_s=900)
def die_constructor_verdict_independent_of_earlier_designs(S, k):
    """The REAL Die constructor (ground cover abstracted to an arbitrary ground rectangle) run under two arbitrary settings
    of the class-wide tolerances -- i.e. after two different histories: same accept / reject verdict, whatever the regions."""
    import frame.die.die as diemod
    from frame.die.die import Die
    t1, t2, EM, EAM = two_tolerances(S)
    W, H = S.real("W", pos=True), S.real("H", pos=True)
    regs = [[S.real(f"x{i}", nonneg=True), S.real(f"y{i}", nonneg=True), S.real(f"w{i}", pos=True), S.real(f"h{i}", pos=True), "A"] for i in range(k)]
    tree = {"width": W, "height": H}
    if k:
        tree["regions"] = regs
    g = mk_rect(S, "g")
    if k:
        rr = Rectangle(center=Point(regs[0][0], regs[0][1]), shape=Shape(regs[0][2], regs[0][3]))
        ov = ovl(g, rr)
        S.assume(sor(seq(ov, 0), ov > EAM))          # only the pairwise overlap test may use the class-wide tolerance

    def fake_cover(self):
        self._ground_regions = [g]
    S.patch(Die, "_calculate_ground_rectangles", fake_cover)
    S.patch(Die, "_calculate_cell_matrix", lambda self: None)
    S.patch(diemod, "gather_boundaries", lambda rects: ([], []))
    o1 = run_under(S, t1, lambda: Die(tree))
    o2 = run_under(S, t2, lambda: Die(tree))
    S.ensure("die_constructor.same_verdict_after_any_two_histories", o1.ok == o2.ok)


@contract(P, functions=["frame.allocation.allocation.Allocation.__init__"], budget_s=900)
def allocation_verdict_independent_of_the_tolerance(S):
    from .alloc_common import Allocation, mk_cell
    t1, t2, EM, EAM = two_tolerances(S)
    c0, c1 = mk_cell(S, "c", 1), mk_cell(S, "o", 1)
    for c in (c0, c1):
        b = box(c[0])
        S.assume(sand(b[0] >= 0, b[1] >= 0))
    S.assume(sand(c0[1]["M0"] > 0, c1[1]["M0"] > 0))
    ov = ovl(c0[0], c1[0])
    S.assume(sor(seq(ov, 0), ov > EAM))
    o1 = run_under(S, t1, lambda: Allocation([c0, c1]))
    o2 = run_under(S, t2, lambda: Allocation([c0, c1]))
    S.ensure("allocation.same_accept_reject_verdict_under_any_two_tolerances", o1.ok == o2.ok)
    if o1.ok and o2.ok:
        S.ensure("allocation.same_areas_and_centres", sand(seq(o1.value.area("M0"), o2.value.area("M0")), seq(o1.value.center("M0").x, o2.value.center("M0").x)))


# ---- ROBDD store, legaliser globals, mutable defaults ------------------------------------------------------------------------

@contract(P, kind="enum", functions=["tools.rect.pseudobool.constructrobdd", "tools.rect.satmanager.SATManager._codifyrobdd"],
          scope="bounded: 300 random encodings in one process; store invariant after each")
def robdd_store_invariant(replay=None):
    import tools.rect.pseudobool as pb
    from tools.rect.satmanager import SATManager
    rng = random.Random(42)
    failures, evals = [], 0
    frozen = list(pb.memory)
    for it in range(300):
        sm = SATManager()
        ls = [sm.newvar(f"q{i}") for i in range(rng.randint(2, 5))]
        e = pb.Expr()
        for l in ls:
            e = e + rng.choice([1, 2, 3, 5, 7, 9]) * (l if rng.random() < 0.6 else -l)
        try:
            sm.pseudoboolencoding(e >= rng.randint(1, 12), rng.random() < 0.5)
        except Exception:  # noqa
            continue
        evals += 1
        mem, mp = pb.memory, pb.mmap
        if mem[:len(frozen)] != frozen:
            failures.append(dict(clause="store_entries_are_never_rewritten", at=it))
        for i in range(2, len(mem)):
            node = mem[i]
            if mp.get(node) != i:
                failures.append(dict(clause="mmap_is_the_inverse_of_memory", index=i))
                break
            if not (node[1] < i and node[2] < i and node[1] != node[2]):
                failures.append(dict(clause="children_precede_parents_and_nodes_are_reduced", index=i, node=node))
                break
        if len(set(mem[2:])) != len(mem) - 2 or len(mp) != len(mem) - 2:
            failures.append(dict(clause="store_has_no_duplicate_nodes", size=len(mem)))
        frozen = list(mem)
        if failures:
            break
    return dict(evaluations=evals, distinct_nontrivial=evals, exhaustive=False, failures=failures[:3],
                rule="random inequalities (2-5 literals, either construction) encoded one after the other in one process; after each: memory "
                     "prefix unchanged, mmap[node] = index, children before parents, no duplicate / unreduced node", samples=[dict(final_store_size=len(pb.memory))], bound="300 encodings")


@contract(P, kind="enum", functions=["tools.legalfloor.expression_tree.set_epsilon", "tools.legalfloor.legalfloor.Model.define_time",
                                     "tools.rect.pseudobool.Ineq.__init__", "tools.floorset_parser.floor_set_manager.strop.Strop.__init__"],
          scope="static call-order / mutation checks + dynamic confirmation")
def legaliser_globals_and_mutable_defaults(replay=None):
    failures, evals = [], 0
    with contextlib.redirect_stdout(io.StringIO()):
        import tools.legalfloor.legalfloor as lf
        import tools.legalfloor.expression_tree as et
        import tools.rect.pseudobool as pb
        from tools.floorset_parser.floor_set_manager.strop import Strop
    # (1) the slack register is (re)defined by every model construction before any equation is built
    src = textwrap.dedent(inspect.getsource(lf.Model.first_build_model))
    body = ast.parse(src).body[0].body
    idx_define = next((i for i, st in enumerate(body) if "define_time" in ast.unparse(st)), None)
    idx_first_eq = next((i for i, st in enumerate(body) if "Equation(" in ast.unparse(st) or "define_module" in ast.unparse(st)), None)
    evals += 1
    if idx_define is None or idx_first_eq is None or idx_define > idx_first_eq:
        failures.append(dict(clause="slack_register_is_defined_before_any_equation_of_a_new_model", define_at=idx_define, first_equation_at=idx_first_eq))
    if "set_epsilon(" not in inspect.getsource(lf.Model.define_time):
        failures.append(dict(clause="define_time_sets_the_slack_register"))
    # (2) named_variables is never written
    tree = ast.parse(inspect.getsource(et))
    writes = [ast.unparse(n)[:80] for n in ast.walk(tree) if isinstance(n, ast.Call) and isinstance(n.func, ast.Attribute)
              and isinstance(n.func.value, ast.Name) and n.func.value.id == "named_variables" and n.func.attr in ("add", "update", "discard", "remove", "clear")]
    evals += 1
    if writes:
        failures.append(dict(clause="name_registry_is_never_written", statements=writes))
    # (3) debug flags only guard printing
    dbg_uses = [ast.unparse(n)[:80] for n in ast.walk(tree) if isinstance(n, ast.Name) and n.id == "debug_print" and isinstance(n.ctx, ast.Load)]
    evals += 1
    if len(dbg_uses) > 2:
        failures.append(dict(clause="debug_mask_only_guards_printing", uses=dbg_uses))
    # (4) mutable defaults are never mutated: dynamic (twice with defaults, defaults unchanged) + static
    import inspect as _i
    d_lhs, d_rhs = pb.Ineq.__init__.__defaults__[0], pb.Ineq.__init__.__defaults__[1]
    before = (d_lhs.c, dict(d_lhs.t), d_rhs.c, dict(d_rhs.t))
    q1 = pb.Ineq(pb.Expr() + pb.Literal("a") + 3)
    q2 = pb.Ineq(rhs=pb.Expr() + pb.Literal("b") + 2)
    q3 = pb.Ineq()
    evals += 1
    if (d_lhs.c, dict(d_lhs.t), d_rhs.c, dict(d_rhs.t)) != before or q3.rhs != 0 or len(q3.lhs.t) != 0:
        failures.append(dict(clause="default_arguments_of_Ineq_are_not_mutated"))
    dh, dw = Strop.__init__.__defaults__
    s1 = Strop("11\n10")
    s2 = Strop("111\n010\n010", [1.0, 2.0, 3.0], [1.0, 1.0, 1.0])
    s3 = Strop("11\n10")
    evals += 1
    if dh != [] or dw != [] or s1._height != s3._height or s1._height is dh:
        failures.append(dict(clause="default_arguments_of_Strop_are_not_mutated_or_aliased"))
    return dict(evaluations=evals, distinct_nontrivial=max(2, evals), exhaustive=True, failures=failures,
                rule="AST: define_time (which calls set_epsilon) precedes every equation in first_build_model; named_variables has no writer; "
                     "debug_print only read by debug(); defaults of Ineq / Strop unchanged after use", samples=["static + dynamic"], bound="4 items")


# ---- differential leg: fresh interpreter alone vs after random histories ---------------------------------------------------------

DEGENERATE = ["pads_only_on_a_die", "one_cell_griddify", "one_cell_refine", "one_cell_uniform", "one_soft_module_no_nets", "one_hard_rectangle",
              "plain_die_1x1_grid_one_region", "whole_die_region", "recognise_one_rectangle"]
PROBES = ["load", "die", "refine", "stog", "sat", "legal", "allocdoc", "decimal"] + ["degenerate:" + t for t in DEGENERATE]


def _run_probe(name, hist, scale=1.0):
    env = dict(os.environ, FRAME_REPO=core.REPO)
    r = subprocess.run([sys.executable, "-m", "contracts.c20_probe", name, str(hist), str(scale)], cwd=core.VERIF, env=env, capture_output=True, text=True, timeout=300)
    if r.returncode != 0:
        return dict(error=r.stderr[-600:])
    return json.loads(r.stdout.strip().splitlines()[-1])


@contract(P, kind="enum", functions=["(whole library: load, decompose, refine, recognise, encode, build the legaliser model)"],
          scope="bounded: 8 probed operations + 9 degenerate designs x 5 (quick) / 40 (thorough) random histories, each in a fresh interpreter",
          params=[dict(probe=p) for p in PROBES])
def fresh_process_vs_after_history(probe, replay=None):
    return _differential(probe, replay)


def _differential(probe, replay=None):
    tier = os.environ.get("VERIF_TIER", "quick")
    seed0 = int(os.environ.get("VERIF_SEED", "0") or 0)
    n_hist = 5 if tier != "thorough" else 40
    failures, evals = [], 0
    base = _run_probe(probe, "none")
    evals += 1
    if "error" in base:
        return dict(evaluations=1, distinct_nontrivial=0, failures=[dict(clause="probe_runs_in_a_fresh_interpreter", probe=probe, observed=base["error"])],
                    rule="probe", samples=[probe])
    again = _run_probe(probe, "none")
    if again.get("digest") != base["digest"]:
        failures.append(dict(clause="probe_is_deterministic", probe=probe))
    hists = [replay["history"]] if replay else ([51] if probe in NEARMISS else []) + [1000 * seed0 + 17 * k + (PROBES + NEARMISS).index(probe) for k in range(n_hist)]
    if not replay and probe in PROBES:      # histories that end with a sibling of the probe's own design (same primary description)
        hists += [f"sib{1000 * seed0 + 31 * k + PROBES.index(probe)}" for k in range(3 if tier != "thorough" else 12)]
    if not replay:      # who defined the class-wide tolerances first, at either end of the comparable scales (added after seed C20-12)
        hists += [f"def:{op}:{ex}:{seed0}" for op in ("netlist", "diefirst", "allocfirst", "terminals") for ex in ((-3, 3) if tier != "thorough" else (-3, -1.5, 0, 1.5, 3))]
    for h in hists:
        evals += 1
        r = _run_probe(probe, h)
        if "error" in r:
            failures.append(dict(clause="probe_runs_after_the_history", probe=probe, history=h, observed=r["error"]))
        elif r["digest"] != base["digest"]:
            diff = [k for k in base["result"] if base["result"][k] != r["result"].get(k)]
            failures.append(dict(clause="same_result_as_in_a_fresh_process", probe=probe, history=h, differing_fields=diff,
                                 alone=str({k: base["result"][k] for k in diff})[:400], after=str({k: r["result"].get(k) for k in diff})[:400]))
    return dict(evaluations=evals, distinct_nontrivial=len(hists) + 1, exhaustive=False, failures=failures[:4],
                rule="the probed operation (with near-miss accept/reject verdicts where it has any) runs in a fresh interpreter alone and after "
                     "a seeded random history of 2-6 other operations, optionally followed by a SIBLING of the probed design (same die outline / module names / trunk / "
                     "constraint left-hand sides, everything else different) (netlists, dies, allocations, recognitions, SAT encodings under both "
                     "constructions, legaliser models, grid decompositions, rejected designs) on designs scaled by 10^-3..10^3; canonical digest "
                     "(12 significant digits, auxiliary SAT variables renamed by first appearance) must be identical",
                samples=[dict(probe=probe, digest=base["digest"])], bound=f"{len(hists)} histories")


NEARMISS = ["nearmiss_load", "nearmiss_die", "nearmiss_stog"]


@contract(P, kind="enum", functions=["frame.netlist.netlist.Netlist._create_rectangles", "frame.die.die.Die.__init__", "frame.geometry.geometry.Rectangle.set_epsilon"],
          scope="bounded: designs whose gaps / overlaps (1e-9 .. 1e-3 relative) fall INSIDE the window of tolerances that earlier designs may induce",
          params=[dict(probe=p) for p in NEARMISS])
def near_boundary_designs_fresh_vs_history(probe, replay=None):
    """Same differential as fresh_process_vs_after_history, on designs that are NOT separated from the decision boundaries
    (the case excluded by the precondition of the deductive tolerance contracts).  A difference here is the known finding:
    the class-wide tolerances are defined once, by whichever design the process loads first."""
    return fresh_process_vs_after_history.__wrapped__(probe, replay) if hasattr(fresh_process_vs_after_history, "__wrapped__") else _differential(probe, replay)


@contract(P, canary=True)
def canary_touches_ignores_tolerance_without_separation(S):
    t1, t2, EM, EAM = two_tolerances(S)
    a, b = mk_rect(S, "a"), mk_rect(S, "b")
    o1 = run_under(S, t1, lambda: a.touches(b))
    o2 = run_under(S, t2, lambda: a.touches(b))
    S.ensure("canary.no_separation_needed", o1.ok and o2.ok and o1.value == o2.value)
