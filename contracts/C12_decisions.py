"""C12 -- refinement decisions are consistent, exact and terminate (frame/allocation/allocation.py)."""
from vf.core import contract
from .alloc_common import *  # noqa
from .griddify_common import TEMPLATES, QUICK, lattice, lattice_cells

P = "C12"


def _unchanged(captured, cell):
    """the cell's image under refine is the cell itself (same rectangle, same ratios, same depth)"""
    rect, alloc, depth = cell
    if len(captured) != 1 or isinstance(captured[0], Summary):
        return False
    r, al, d = captured[0]
    same_rect = sand(box_eq(box(r), box(rect)), attrs_eq(r, rect))
    same_alloc = list(al.keys()) == list(alloc.keys()) and sand(*[seq(al[k], alloc[k]) for k in alloc])
    return sand(same_rect, same_alloc, seq(d, depth))


@contract(P, functions=[A + "must_be_refined", A + "refine"],
          params=[dict(k=k, fixed=f) for k in (0, 1, 2, 3) for f in (False, True)])
def must_be_refined_iff_refine_changes_cell(S, k, fixed):
    """For an allocation holding one arbitrary cell: must_be_refined(t) <=> refine(t, levels) is not the identity.
    must_be_refined is `any` over the cells (QUANT shape, checked on the AST) and refine is a flat map (FLATMAP shape),
    so the equivalence lifts to allocations with any number of cells."""
    try:
        q = loopshape.quantifier_shape(Allocation.must_be_refined, "any")
    except loopshape.ShapeError as e:
        S.cover("quantifier-shape-not-applicable: " + str(e))
    f = flatmap_or_note(S, Allocation.refine, 0)
    cell = mk_cell(S, "c", k, fixed)
    t = S.real("t")
    levels = S.choice("levels", [1, 2])
    a = bare_allocation([cell])
    o1 = S.call(a.must_be_refined, t)
    S.patch(amod, "Allocation", Capture)
    o2 = S.call(a.refine, t, levels)
    S.ensure("must_be_refined.no_raise", o1.ok and o2.ok)
    if not (o1.ok and o2.ok):
        return
    S.ensure("must_be_refined.returns_bool", isinstance(o1.value, bool))
    changed = snot(_unchanged(o2.value.captured, cell))
    S.ensure("must_be_refined.iff_refine_changes_the_allocation", siff(o1.value, changed))
    # no livelock: if refinement is demanded, refine makes progress (the cell is really cut)
    S.ensure("must_be_refined.true_implies_cell_is_cut", simplies(o1.value, len(o2.value.captured) == 2 ** levels))


@contract(P, functions=[A + "must_be_refined", A + "refine"], scope="bounded: 2 cells (cross-check of the lifting)",
          params=[dict(k0=a, k1=b, f1=f) for a in (0, 1, 2) for b in (0, 1) for f in (False, True)])
def must_be_refined_iff_refine_changes_two_cells(S, k0, k1, f1):
    c0, c1 = mk_cell(S, "c", k0), mk_cell(S, "o", k1, f1)
    t = S.real("t")
    a = bare_allocation([c0, c1])
    o1 = S.call(a.must_be_refined, t)
    S.patch(amod, "Allocation", Capture)
    o2 = S.call(a.refine, t, 1)
    if not (o1.ok and o2.ok):
        S.ensure("must_be_refined2.no_raise", False)
        return
    cap = o2.value.captured
    changed = len(cap) != 2 or sor(snot(_unchanged([cap[0]], c0)), snot(_unchanged([cap[1]], c1)))
    S.ensure("must_be_refined2.iff_refine_changes_the_allocation", siff(o1.value, changed))


@contract(P, functions=[A + "refine", A + "_split_allocation"],
          params=[dict(k=k, fixed=f, lv=lv) for k in (0, 1, 2, 3) for f in (False, True) for lv in ("sym", 1, 2)])
def refine_selects_exactly(S, k, fixed, lv):
    """Threshold refinement splits precisely the non-empty, non-fixed cells in which no module exceeds the threshold,
    each into 2^levels equal cells obtained by halving the longer side, depth raised by levels; other cells stay."""
    flatmap_or_note(S, Allocation.refine, 0)
    cell = mk_cell(S, "c", k, fixed)
    rect, alloc, depth = cell
    t = S.real("t")
    levels = S.int("levels", lo=1) if lv == "sym" else lv
    a = bare_allocation([cell])
    S.patch(amod, "Allocation", Capture)
    if lv == "sym" and S.mode == "sym":
        S.patch(Allocation, "_split_allocation", staticmethod(split_stub(S)))
    out = S.call(a.refine, t, levels)
    S.ensure("refine.no_raise", out.ok)
    if not out.ok:
        return
    cap = out.value.captured
    s = Summary.of_list(cap, parent_alloc=alloc)
    cond = sand(not fixed, k > 0, *[alloc[m] <= t for m in alloc])
    S.ensure("refine.cell_split_iff_nonempty_nonfixed_and_no_module_above_threshold",
             sif(cond, seq(s.n, pow2(S, levels)), _unchanged(cap, cell)))
    sw, sh = spec_shape(S, rect.shape.w, rect.shape.h, levels)
    S.ensure("refine.split_cells_are_equal_halvings_with_depth_raised",
             simplies(cond, sand(s.shape_ok, seq(s.shape[0], sw), seq(s.shape[1], sh), s.depth_ok, seq(s.depth, depth + levels))))


@contract(P, functions=[A + "_split_allocation"], params=[dict(k=1)], leak_ok=True)
def split_allocation_shapes(S, k):
    """the recursion contract of _split_allocation (shared with C02), here for the shape / depth clauses"""
    rect, alloc, depth = mk_cell(S, "c", k)
    levels = S.int("levels", lo=0)

    def rec(r, al, d, lv=0):
        S.ensure("split.measure_decreases", sand(lv >= 0, lv < levels))
        return split_stub(S)(r, al, d, lv)
    if S.mode == "sym":
        S.patch(Allocation, "_split_allocation", staticmethod(rec))
    out = S.call(REAL_SPLIT, rect, alloc, depth, levels)
    S.ensure("split.no_raise", out.ok)
    if out.ok:
        res = out.value
        s = res if isinstance(res, Summary) else Summary.of_list(res, parent_alloc=alloc)
        split_contract_post(S, "split", rect, alloc, depth, levels, s)


@contract(P, functions=[A + "uniform_refinement_depth"], params=[dict(k=k) for k in (0, 1, 2)])
def uniform_reaches_max_depth(S, k):
    flatmap_or_note(S, Allocation.uniform_refinement_depth, 0)
    cell = mk_cell(S, "c", k)
    other = mk_cell(S, "o", 1)
    a = bare_allocation([cell, other])
    S.patch(amod, "Allocation", Capture)
    marks = []

    def stub(rect, alloc, depth, levels=0):
        r = split_stub(S)(rect, alloc, depth, levels)
        marks.append((rect, r))
        return r
    if S.mode == "sym":
        S.patch(Allocation, "_split_allocation", staticmethod(stub))
    out = S.call(a.uniform_refinement_depth)
    S.ensure("uniform.no_raise", out.ok)
    if not out.ok:
        return
    mx = smax(cell[2], other[2])
    if out.value is a:
        S.ensure("uniform.identity_only_when_all_depths_equal", seq(cell[2], other[2]))
        return
    if S.mode != "sym":
        s = Summary.of_list(out.value.captured)
        S.ensure("uniform.every_cell_at_former_maximum_depth", sand(s.depth_ok, seq(s.depth, mx)))
        return
    for rect, r in marks:
        s = r if isinstance(r, Summary) else Summary.of_list(r)
        S.ensure("uniform.every_cell_at_former_maximum_depth", sand(s.depth_ok, seq(s.depth, mx)))
    S.ensure("uniform.every_cell_processed_once", len(marks) == 2)


@contract(P, canary=True)
def canary_must_be_refined_always_false(S):
    cell = mk_cell(S, "c", 1)
    a = bare_allocation([cell])
    o1 = S.call(a.must_be_refined, S.real("t"))
    S.ensure("canary.never_demands_refinement", o1.ok and o1.value is False)


# ---- griddify: alignment on lattice templates ------------------------------------------------------------------------

def griddify_run(S, tmpl, k, fixed_idx):
    E, EA = set_eps(S)
    nx, ny, idx = TEMPLATES[tmpl]
    X, Y = lattice(S, nx, ny, E)
    cells = lattice_cells(S, tmpl, X, Y, k, fixed_idx)
    a = bare_allocation(cells)
    S.patch(amod, "Allocation", Capture)
    out = S.call(a.griddify)
    return E, X, Y, cells, a, out


@contract(P, functions=[A + "griddify", "frame.geometry.geometry.gather_boundaries"], budget_s=600,
          scope="bounded: lattice templates of <= 3 cells (all coordinates symbolic)",
          params=[dict(tmpl=t, fixed_idx=f) for t in QUICK for f in range(-1, len(TEMPLATES[t][2]))])
def griddify_alignment(S, tmpl, fixed_idx):
    E, X, Y, cells, a, out = griddify_run(S, tmpl, 1, fixed_idx)
    S.ensure("griddify.no_raise", out.ok)
    if not out.ok:
        return
    # boundary lines of the original cells
    xs = sorted({i for (i0, i1, j0, j1) in TEMPLATES[tmpl][2] for i in (i0, i1)})
    ys = sorted({j for (i0, i1, j0, j1) in TEMPLATES[tmpl][2] for j in (j0, j1)})
    conds = []
    for (r, al, d) in out.value.captured:
        if r.fixed:
            continue
        B = box(r)
        for i in xs:
            inside = sand(B[0] < X[i], X[i] < B[2])
            sliver = smin(X[i] - B[0], B[2] - X[i]) <= 0.01 * r.shape.h
            conds.append(simplies(inside, sliver))
        for j in ys:
            inside = sand(B[1] < Y[j], Y[j] < B[3])
            sliver = smin(Y[j] - B[1], B[3] - Y[j]) <= 0.01 * r.shape.w
            conds.append(simplies(inside, sliver))
    S.ensure("griddify.no_refinable_cell_crossed_by_a_boundary_line", sand(*conds) if conds else True)


@contract(P, tier="thorough", functions=[A + "griddify"], budget_s=3000,
          scope="bounded: lattice templates of <= 3 cells (all coordinates symbolic)",
          params=[dict(tmpl=t, fixed_idx=f) for t in TEMPLATES if t not in QUICK for f in (-1, 0, 1)])
def griddify_alignment_more(S, tmpl, fixed_idx):
    griddify_alignment(S, tmpl, fixed_idx)
