"""C12 -- refinement decisions are consistent, exact and terminate (frame/allocation/allocation.py)."""
from vf.core import contract
from .alloc_common import *  # noqa
from .griddify_common import TEMPLATES, QUICK, lattice, lattice_cells

P = "C12"


def _unchanged(captured, cell):
    """the cell's image under refine is the cell itself (same rectangle, same ratios, same depth)"""
    rect, alloc, depth = cell
    if len(captured) != 1 or isinstance(captured[0], Summary):
        return False
    r, al, d = captured[0]
    same_rect = sand(box_eq(box(r), box(rect)), attrs_eq(r, rect))
    same_alloc = list(al.keys()) == list(alloc.keys()) and sand(*[seq(al[k], alloc[k]) for k in alloc])
    return sand(same_rect, same_alloc, seq(d, depth))


@contract(P, functions=[A + "must_be_refined", A + "refine"],
          params=[dict(k=k, fixed=f) for k in (0, 1, 2, 3) for f in (False, True)])
def must_be_refined_iff_refine_changes_cell(S, k, fixed):
    """For an allocation holding one arbitrary cell: must_be_refined(t) <=> refine(t, levels) is not the identity.
    must_be_refined is `any` over the cells (QUANT shape, checked on the AST) and refine is a flat map (FLATMAP shape),
    so the equivalence lifts to allocations with any number of cells."""
    try:
        q = loopshape.quantifier_shape(Allocation.must_be_refined, "any")
    except loopshape.ShapeError as e:
        S.cover("quantifier-shape-not-applicable: " + str(e))
    f = flatmap_or_note(S, Allocation.refine, 0)
    cell = mk_cell(S, "c", k, fixed)
    t = S.real("t")
    levels = S.choice("levels", [1, 2])
    a = bare_allocation([cell])
    o1 = S.call(a.must_be_refined, t)
    S.patch(amod, "Allocation", Capture)
    o2 = S.call(a.refine, t, levels)
    S.ensure("must_be_refined.no_raise", o1.ok and o2.ok)
    if not (o1.ok and o2.ok):
        return
    S.ensure("must_be_refined.returns_bool", isinstance(o1.value, bool))
    changed = snot(_unchanged(o2.value.captured, cell))
    S.ensure("must_be_refined.iff_refine_changes_the_allocation", siff(o1.value, changed))
    # no livelock: if refinement is demanded, refine makes progress (the cell is really cut)
    S.ensure("must_be_refined.true_implies_cell_is_cut", simplies(o1.value, len(o2.value.captured) == 2 ** levels))


@contract(P, functions=[A + "must_be_refined", A + "refine"], scope="bounded: 2 cells (cross-check of the lifting)",
          params=[dict(k0=a, k1=b, f1=f) for a in (0, 1, 2) for b in (0, 1) for f in (False, True)])
def must_be_refined_iff_refine_changes_two_cells(S, k0, k1, f1):
    c0, c1 = mk_cell(S, "c", k0), mk_cell(S, "o", k1, f1)
    t = S.real("t")
    a = bare_allocation([c0, c1])
    o1 = S.call(a.must_be_refined, t)
    S.patch(amod, "Allocation", Capture)
    o2 = S.call(a.refine, t, 1)
    if not (o1.ok and o2.ok):
        S.ensure("must_be_refined2.no_raise", False)
        return
    cap = o2.value.captured
    changed = len(cap) != 2 or sor(snot(_unchanged([cap[0]], c0)), snot(_unchanged([cap[1]], c1)))
    S.ensure("must_be_refined2.iff_refine_changes_the_allocation", siff(o1.value, changed))


@contract(P, functions=[A + "refine", A + "_split_allocation"],
          params=[dict(k=k, fixed=f, lv=lv) for k in (0, 1, 2, 3) for f in (False, True) for lv in ("sym", 1, 2)])
def refine_selects_exactly(S, k, fixed, lv):
    """Threshold refinement splits precisely the non-empty, non-fixed cells in which no module exceeds the threshold,
    each into 2^levels equal cells obtained by halving the longer side, depth raised by levels; other cells stay."""
    flatmap_or_note(S, Allocation.refine, 0)
    cell = mk_cell(S, "c", k, fixed)
    rect, alloc, depth = cell
    t = S.real("t")
    levels = S.int("levels", lo=1) if lv == "sym" else lv
    a = bare_allocation([cell])
    S.patch(amod, "Allocation", Capture)
    if lv == "sym" and S.mode == "sym":
        S.patch(Allocation, "_split_allocation", staticmethod(split_stub(S)))
    out = S.call(a.refine, t, levels)
    S.ensure("refine.no_raise", out.ok)
    if not out.ok:
        return
    cap = out.value.captured
    s = Summary.of_list(cap, parent_alloc=alloc)
    cond = sand(not fixed, k > 0, *[alloc[m] <= t for m in alloc])
    S.ensure("refine.cell_split_iff_nonempty_nonfixed_and_no_module_above_threshold",
             sif(cond, seq(s.n, pow2(S, levels)), _unchanged(cap, cell)))
    sw, sh = spec_shape(S, rect.shape.w, rect.shape.h, levels)
    S.ensure("refine.split_cells_are_equal_halvings_with_depth_raised",
             simplies(cond, sand(s.shape_ok, seq(s.shape[0], sw), seq(s.shape[1], sh), s.depth_ok, seq(s.depth, depth + levels))))


@contract(P, functions=[A + "_split_allocation"], params=[dict(k=1)], leak_ok=True)
def split_allocation_shapes(S, k):
    """the recursion contract of _split_allocation (shared with C02), here for the shape / depth clauses"""
    rect, alloc, depth = mk_cell(S, "c", k)
    levels = S.int("levels", lo=0)

    calls = []

    def rec(r, al, d, lv=0):
        S.ensure("split.measure_decreases", sand(lv >= 0, lv < levels))
        calls.append(lv)
        return split_stub(S)(r, al, d, lv)
    if S.mode == "sym":
        S.patch(Allocation, "_split_allocation", staticmethod(rec))
    out = S.call(REAL_SPLIT, rect, alloc, depth, levels)
    if S.mode == "sym" and out.ok and not calls and not isinstance(out.value, Summary) and len(out.value) > 1:
        from vf import loopcut       # see C02 split_allocation_recursive: the code does not recurse through its own name any more
        raise loopcut.CutError("_split_allocation no longer recurses through its own name: recursion-by-contract not applicable")
    S.ensure("split.no_raise", out.ok)
    if out.ok:
        res = out.value
        s = res if isinstance(res, Summary) else Summary.of_list(res, parent_alloc=alloc)
        split_contract_post(S, "split", rect, alloc, depth, levels, s)


@contract(P, functions=[A + "uniform_refinement_depth"], params=[dict(k=k) for k in (0, 1, 2)])
def uniform_reaches_max_depth(S, k):
    flatmap_or_note(S, Allocation.uniform_refinement_depth, 0)
    cell = mk_cell(S, "c", k)
    other = mk_cell(S, "o", 1)
    a = bare_allocation([cell, other])
    S.patch(amod, "Allocation", Capture)
    marks = []

    def stub(rect, alloc, depth, levels=0):
        r = split_stub(S)(rect, alloc, depth, levels)
        marks.append((rect, r))
        return r
    if S.mode == "sym":
        S.patch(Allocation, "_split_allocation", staticmethod(stub))
    out = S.call(a.uniform_refinement_depth)
    S.ensure("uniform.no_raise", out.ok)
    if not out.ok:
        return
    mx = smax(cell[2], other[2])
    if out.value is a:
        S.ensure("uniform.identity_only_when_all_depths_equal", seq(cell[2], other[2]))
        return
    if S.mode != "sym":
        s = Summary.of_list(out.value.captured)
        S.ensure("uniform.every_cell_at_former_maximum_depth", sand(s.depth_ok, seq(s.depth, mx)))
        return
    for rect, r in marks:
        s = r if isinstance(r, Summary) else Summary.of_list(r)
        S.ensure("uniform.every_cell_at_former_maximum_depth", sand(s.depth_ok, seq(s.depth, mx)))
    S.ensure("uniform.every_cell_processed_once", len(marks) == 2)


@contract(P, canary=True)
def canary_must_be_refined_always_false(S):
    cell = mk_cell(S, "c", 1)
    a = bare_allocation([cell])
    o1 = S.call(a.must_be_refined, S.real("t"))
    S.ensure("canary.never_demands_refinement", o1.ok and o1.value is False)


# ---- griddify: alignment on lattice templates ------------------------------------------------------------------------

def griddify_run(S, tmpl, k, fixed_idx):
    E, EA = set_eps(S)
    nx, ny, idx = TEMPLATES[tmpl]
    X, Y = lattice(S, nx, ny, E)
    cells = lattice_cells(S, tmpl, X, Y, k, fixed_idx)
    a = bare_allocation(cells)
    S.patch(amod, "Allocation", Capture)
    out = S.call(a.griddify)
    return E, X, Y, cells, a, out


@contract(P, functions=[A + "griddify", "frame.geometry.geometry.gather_boundaries"], budget_s=600,
          scope="bounded: lattice templates of <= 3 cells (all coordinates symbolic)",
          params=[dict(tmpl=t, fixed_idx=f) for t in QUICK for f in range(-1, len(TEMPLATES[t][2]))])
def griddify_alignment(S, tmpl, fixed_idx):
    E, X, Y, cells, a, out = griddify_run(S, tmpl, 1, fixed_idx)
    S.ensure("griddify.no_raise", out.ok)
    if not out.ok:
        return
    # boundary lines of the original cells
    xs = sorted({i for (i0, i1, j0, j1) in TEMPLATES[tmpl][2] for i in (i0, i1)})
    ys = sorted({j for (i0, i1, j0, j1) in TEMPLATES[tmpl][2] for j in (j0, j1)})
    conds = []
    for (r, al, d) in out.value.captured:
        if r.fixed:
            continue
        B = box(r)
        for i in xs:
            inside = sand(B[0] < X[i], X[i] < B[2])
            sliver = smin(X[i] - B[0], B[2] - X[i]) <= 0.01 * r.shape.h
            conds.append(simplies(inside, sliver))
        for j in ys:
            inside = sand(B[1] < Y[j], Y[j] < B[3])
            sliver = smin(Y[j] - B[1], B[3] - Y[j]) <= 0.01 * r.shape.w
            conds.append(simplies(inside, sliver))
    S.ensure("griddify.no_refinable_cell_crossed_by_a_boundary_line", sand(*conds) if conds else True)


@contract(P, tier="thorough", functions=[A + "griddify"], budget_s=3000,
          scope="bounded: lattice templates of <= 3 cells (all coordinates symbolic)",
          params=[dict(tmpl=t, fixed_idx=f) for t in TEMPLATES if t not in QUICK for f in (-1, 0, 1)])
def griddify_alignment_more(S, tmpl, fixed_idx):
    griddify_alignment(S, tmpl, fixed_idx)


# ---- bounded leg: larger concrete allocations (the symbolic runs hold one arbitrary cell / lattice templates of <= 3 cells) --------------

@contract(P, kind="enum", functions=[A + "must_be_refined", A + "refine", A + "uniform_refinement_depth", A + "griddify", A + "_split_allocation"],
          scope="bounded: concrete allocations of up to 20 cells on irregular lattices (empty maps, zero ratios, fixed cells, recorded depths), "
                "thresholds on and off the ratios, levels 1-3, the refine-while-needed loop", params=[dict(chunk=i) for i in range(8)])
def larger_allocations(chunk, replay=None):
    import os
    import random
    tier = os.environ.get("VERIF_TIER", "quick")
    rng = random.Random(1200 + chunk + 100 * int(os.environ.get("VERIF_SEED", "0") or 0))
    n_cases = 20 if tier != "thorough" else 250
    failures, evals, samples = [], 0, []

    def cells_of(a):
        return sorted((round(x.rect.center.x, 9), round(x.rect.center.y, 9), round(x.rect.shape.w, 9), round(x.rect.shape.h, 9), x.depth,
                       tuple(sorted((k, round(v, 12)) for k, v in x.alloc.items())), x.rect.fixed) for x in a.allocations)

    for it in range(n_cases):
        if replay:
            spec, fixed_idx, t, lv = replay["spec"], replay["fixed_idx"], replay["t"], replay["levels"]
        else:
            # an irregular lattice: rows of different heights, each row cut at its own x positions
            spec, y = [], 0.0
            for _ in range(rng.randint(1, 4)):
                # decimal values that are not representable in binary are mixed in (halving then leaves rounding noise between siblings: the
                # operations must still succeed; added after seed C12-9, an area tolerance far below that noise)
                h = rng.choice([1.0, 2.0, 0.5, 3.0, 0.7, 1.1, 0.9])
                xs = sorted({0.0, 12.0, *[rng.choice([2.0, 3.0, 4.5, 6.0, 7.25, 9.0, 10.5, 3.3, 6.6, 10.1, 0.35]) for _ in range(rng.randint(0, 4))]})
                for x0, x1 in zip(xs, xs[1:]):
                    al = {}
                    for m in ("M0", "M1", "M2"):
                        if rng.random() < 0.55:
                            al[m] = rng.choice([0.0, 0.1, 0.25, 0.5, 0.5, 0.75, 1.0])
                    spec.append([[(x0 + x1) / 2, y + h / 2, x1 - x0, h], al, rng.choice([0, 0, 0, 1, 3])])
                y += h
            if rng.random() < 0.5:
                rng.shuffle(spec)           # the order of the cells in the document must not matter
            fixed_idx = sorted(rng.sample(range(len(spec)), rng.choice([0, 0, 1, 2]) if len(spec) > 2 else 0))
            t = rng.choice([0.0, 0.1, 0.25, 0.3, 0.5, 0.6, 0.75, 0.9, 1.0])
            if rng.random() < 0.3:      # a threshold one unit in the last place below / above a ratio of the allocation: the comparison is exact
                import math             # (after the open seed r8-C12-1: a tolerance in must_be_refined and none in refine)
                rs = [v for _, al, _ in spec for v in al.values() if 0 < v < 1]
                if rs:
                    r0 = rng.choice(rs)
                    t = rng.choice([math.nextafter(r0, 0.0), math.nextafter(r0, 1.0), r0 * (1 - 3e-10), r0 * (1 + 3e-10)])
            lv = rng.randint(1, 3)
        Rectangle.undefine_epsilon()
        try:
            a = Allocation([[list(r), dict(al), d] if d else [list(r), dict(al)] for r, al, d in spec])
        except AssertionError:
            continue
        if fixed_idx and (replay or rng.random() < 0.5):
            # composition (added after seed C12-7): the allocation is queried and refined BEFORE some of its cells are marked fixed, as
            # initial_allocation does when it detects the cells of fixed modules; the answers below must follow the flags of now
            try:
                a.must_be_refined(t)
                a.refine(t, 1)
            except Exception:  # noqa
                pass
        for i in fixed_idx:
            a.allocations[i].rect.fixed = True
        info = dict(spec=spec, fixed_idx=fixed_idx, t=t, levels=lv)
        evals += 1
        bad = None
        try:
            # (1) must_be_refined <=> refine changes the allocation; selection and shape of the split
            must = a.must_be_refined(t)
            b = a.refine(t, lv)
            want_split = [bool(al) and not (i in fixed_idx) and max(al.values()) <= t for i, (r, al, d) in enumerate(spec)]
            if must != any(want_split):
                bad = f"must_be_refined({t}) = {must} but {sum(want_split)} cells qualify"
            if (cells_of(b) != cells_of(a)) != must:
                bad = bad or f"must_be_refined({t}) = {must} but refine changed the allocation: {cells_of(b) != cells_of(a)}"
            exp, ties = [], []
            for i, (r, al, d) in enumerate(spec):
                if not want_split[i]:
                    exp.append((round(r[0], 9), round(r[1], 9), round(r[2], 9), round(r[3], 9), d, tuple(sorted((k, round(v, 12)) for k, v in al.items())), i in fixed_idx))
                    continue
                boxes = [(r[0] - r[2] / 2, r[1] - r[3] / 2, r[0] + r[2] / 2, r[1] + r[3] / 2)]
                tie = False
                for _ in range(lv):
                    nxt = []
                    for (x0, y0, x1, y1) in boxes:
                        if abs((x1 - x0) - (y1 - y0)) <= 1e-9 * max(x1 - x0, y1 - y0):
                            tie = True          # a square (up to rounding): either side is "the longer one"
                        if (x1 - x0) >= (y1 - y0):
                            nxt += [(x0, y0, (x0 + x1) / 2, y1), ((x0 + x1) / 2, y0, x1, y1)]
                        else:
                            nxt += [(x0, y0, x1, (y0 + y1) / 2), (x0, (y0 + y1) / 2, x1, y1)]
                    boxes = nxt
                if tie:
                    # the pieces of this cell are checked without fixing the direction of the cuts made on a square: 2^levels cells of equal
                    # area inside the parent, with the depth raised and the ratios inherited
                    px0, py0, px1, py1 = r[0] - r[2] / 2, r[1] - r[3] / 2, r[0] + r[2] / 2, r[1] + r[3] / 2
                    inside = [c for c in cells_of(b) if px0 - 1e-9 <= c[0] - c[2] / 2 and c[0] + c[2] / 2 <= px1 + 1e-9 and py0 - 1e-9 <= c[1] - c[3] / 2 and c[1] + c[3] / 2 <= py1 + 1e-9]
                    if len(inside) != 2 ** lv or any(abs(c[2] * c[3] - r[2] * r[3] / 2 ** lv) > 1e-9 * r[2] * r[3] or c[4] != d + lv or
                                                    c[5] != tuple(sorted((k, round(v, 12)) for k, v in al.items())) for c in inside):
                        bad = bad or "a cell that becomes square while it is halved is not split into 2^levels equal cells with the depth raised"
                    ties.extend(inside)
                    continue
                for (x0, y0, x1, y1) in boxes:
                    exp.append((round((x0 + x1) / 2, 9), round((y0 + y1) / 2, 9), round(x1 - x0, 9), round(y1 - y0, 9), d + lv,
                                tuple(sorted((k, round(v, 12)) for k, v in al.items())), False))
            if sorted(exp) != sorted(c for c in cells_of(b) if c not in ties):
                bad = bad or "refine did not split exactly the qualifying cells into 2^levels equal cells by halving the longer side with the depth raised"
            # (2) the refine-while-needed loop terminates (bounded here: 6 rounds, 300 cells)
            cur, rounds = a, 0
            while cur.must_be_refined(t) and rounds < 6 and cur.num_rectangles < 300:
                nxt = cur.refine(t, 1)
                if cells_of(nxt) == cells_of(cur):
                    bad = bad or "refine-while-needed loop does not progress: must_be_refined holds but refine changes nothing"
                    break
                cur, rounds = nxt, rounds + 1
            # (3) uniform depth: every refinable non-empty cell ends at the former maximum depth
            u = a.uniform_refinement_depth()
            dmax = max(d for _, _, d in spec)
            for x in u.allocations:
                if not x.rect.fixed and x.alloc and x.depth != dmax and any(True for _ in [0]):
                    src = [s for s in spec if abs(x.rect.center.x - s[0][0]) <= s[0][2] / 2 and abs(x.rect.center.y - s[0][1]) <= s[0][3] / 2]
                    if src and src[0][1]:
                        bad = bad or f"uniform refinement left a cell at depth {x.depth}, former maximum {dmax}"
            # (4) grid refinement: no refinable cell crossed by a boundary line of another cell (1 % slivers excepted)
            g = a.griddify()
            bxs = [(x.rect.center.x - x.rect.shape.w / 2, x.rect.center.y - x.rect.shape.h / 2, x.rect.center.x + x.rect.shape.w / 2, x.rect.center.y + x.rect.shape.h / 2,
                    x.rect.fixed) for x in g.allocations]
            xl = sorted({v for b_ in bxs for v in (b_[0], b_[2])})
            yl = sorted({v for b_ in bxs for v in (b_[1], b_[3])})
            for (x0, y0, x1, y1, fx) in bxs:
                if fx:
                    continue
                for v in xl:
                    if x0 + 0.01 * (y1 - y0) < v < x1 - 0.01 * (y1 - y0) and x0 + 0.01 * (x1 - x0) < v < x1 - 0.01 * (x1 - x0):
                        bad = bad or f"after griddify the cell {(x0, y0, x1, y1)} is crossed by the line x = {v}"
                for v in yl:
                    if y0 + 0.01 * (x1 - x0) < v < y1 - 0.01 * (x1 - x0) and y0 + 0.01 * (y1 - y0) < v < y1 - 0.01 * (y1 - y0):
                        bad = bad or f"after griddify the cell {(x0, y0, x1, y1)} is crossed by the line y = {v}"
        except Exception as e:  # noqa
            bad = f"{type(e).__name__}: {str(e)[:200]}"
        if bad:
            failures.append(dict(clause="big.refinement_decisions_are_consistent_and_exact", observed=bad, **info))
        if not samples:
            samples.append(dict(cells=len(spec), t=t, levels=lv, fixed=fixed_idx))
        if len(failures) >= 4 or replay:
            break
    Rectangle.undefine_epsilon()
    return dict(evaluations=evals, distinct_nontrivial=evals, exhaustive=False, failures=failures[:4],
                rule="random allocations on irregular lattices (1-4 rows of different heights, each cut at its own positions: up to 20 cells; occupancy maps "
                     "with 0-3 modules incl. empty maps and zero ratios; recorded depths; 0-2 fixed cells), thresholds chosen on and off the ratios, "
                     "levels 1-3: must_be_refined against the definition and against whether refine changes the cells; the result of refine against an "
                     "independent halving; the refine-while-needed loop progresses; uniform depth; no refinable cell crossed by a boundary line after "
                     "griddify (1 % slivers excepted)", samples=samples, bound=f"{n_cases} allocations per chunk")
