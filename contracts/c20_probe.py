"""Probe runner for C20: executed in a FRESH interpreter (subprocess).  Usage:
     python -m contracts.c20_probe <probe> <history-seed or 'none'> [scale]
Runs (optionally) a random history of operations on unrelated designs, then the probed operation, and prints a canonical
digest (JSON) of its observable result."""
import contextlib
import hashlib
import io
import json
import os
import random
import sys

REPO = os.environ.get("FRAME_REPO", "/repo")
sys.path.insert(0, REPO)


def r9(x):
    return float(f"{x:.12g}")


def netlist_doc(scale, k=3, seed=0):
    rng = random.Random(seed)
    mods = {}
    for i in range(k):
        kind = ["soft", "hard2", "fixed", "softrect"][(i + seed) % 4]
        x = (2 + 6 * i) * scale
        if kind == "soft":
            mods[f"M{i}"] = {"area": 4 * scale * scale, "center": [x, 2 * scale]}
        elif kind == "hard2":
            mods[f"M{i}"] = {"hard": True, "rectangles": [[x, 2 * scale, 2 * scale, 2 * scale], [x, 3.5 * scale, 1 * scale, 1 * scale]]}
        elif kind == "fixed":
            mods[f"M{i}"] = {"fixed": True, "rectangles": [[x, 7 * scale, 2 * scale, 2 * scale]]}
        else:
            mods[f"M{i}"] = {"area": 5 * scale * scale, "rectangles": [[x, 11 * scale, 2 * scale, 2 * scale], [x + 1.5 * scale, 11 * scale, 1 * scale, 1 * scale]]}
    names = list(mods)
    nets = [[names[0], names[-1], 2]] + ([[names[0], names[1], names[2]]] if k >= 3 else [])
    return {"Modules": mods, "Nets": nets}


SAT_POOL = [((7, 5, 3, 2), 8), ((8, 5, 3, 3, 2), 12), ((2, 2, 3), 4), ((2, 2, -3), 1), ((5, 3, 2), 6), ((9, 7, 5, 3, 2), 13), ((3, 3, 2, 2), 5),
            ((6, 5, 3, 2), 7), ((7, -5, 3, 2), 4), ((4, 3, 3, 2), 6), ((8, 5, 3, 0, 2), 9), ((5, 5, 3, 2), 8)]


def sat_encode(coefs, b, dec):
    import tools.rect.pseudobool as pb
    from tools.rect.satmanager import SATManager
    sm = SATManager()
    ls = [sm.newvar(f"x{i}") for i in range(len(coefs))]
    e = pb.Expr()
    for c, l in zip(coefs, ls):
        e = e + c * l
    sm.pseudoboolencoding(e >= b, dec)
    return sm


def history(seed, first=None):
    """arbitrary other operations on unrelated designs of comparable scale (within a factor 1000); `first` = (operation, scale) forces the
    first operation: who defines the class-wide tolerances, and at which end of the admissible scales, is covered systematically"""
    from frame.netlist.netlist import Netlist
    from frame.die.die import Die
    from frame.allocation.allocation import Allocation, create_initial_allocation
    from frame.geometry.geometry import Rectangle, Point, Shape, create_stog
    write_yaml = lambda d: __import__("json").dumps(d, indent=1)  # noqa: E731  input documents are written WITHOUT the library (JSON is a subset of YAML): the harness must not depend on the code under test
    import tools.rect.pseudobool as pb
    from tools.rect.satmanager import SATManager
    rng = random.Random(seed)
    for step in range(rng.randint(2, 6)):
        op = rng.choice(["netlist", "die", "alloc", "stog", "sat", "legal", "strop", "badnet", "diefirst", "allocfirst", "terminals"])
        sc = 10 ** rng.uniform(-3, 3)
        if step == 0 and first:
            op, sc = first
        try:
            with contextlib.redirect_stdout(io.StringIO()):
                if op == "netlist":
                    Netlist(write_yaml(netlist_doc(sc, rng.randint(1, 4), rng.randint(0, 9))))
                elif op == "badnet":
                    try:
                        Netlist("Modules: {A: {area: -1}}")
                    except AssertionError:
                        pass
                elif op == "die":
                    n = Netlist(write_yaml(netlist_doc(sc, 3, 2)))
                    d = Die(f"{20 * sc}x{14 * sc}", n)
                    d.split_refinable_regions(2.0, rng.randint(2, 6))
                elif op == "terminals":     # a design without any extent: pads only (nothing to derive a tolerance from)
                    Netlist(write_yaml({"Modules": {"T1": {"terminal": True, "center": [1 * sc, 1 * sc]}, "T2": {"terminal": True, "center": [3 * sc, 1 * sc]},
                                                    "T3": {"terminal": True, "fixed": True, "center": [2 * sc, 4 * sc]}}, "Nets": [["T1", "T2"], ["T2", "T3", 2]]}))
                elif op == "diefirst":      # a die (or an allocation document) without a netlist: the other two places that define the tolerances
                    Die(write_yaml({"width": 20 * sc, "height": 14 * sc, "regions": [[2 * sc, 12 * sc, 4 * sc, 4 * sc, "#"]]})).split_refinable_regions(2.0, 3)
                elif op == "allocfirst":
                    Allocation(write_yaml([[[1 * sc, 1 * sc, 2 * sc, 2 * sc], {"A": 0.5}], [[3 * sc, 1 * sc, 2 * sc, 2 * sc], {"B": 0.25}]])).refine(0.9, 1)
                elif op == "alloc":
                    n = Netlist(write_yaml(netlist_doc(sc, 2, 0)))
                    d = Die(f"{20 * sc}x{14 * sc}", n)
                    a = create_initial_allocation(d)
                    a.refine(0.9, 1).uniform_refinement_depth().griddify()
                elif op == "stog":
                    rs = [Rectangle(center=Point(sc, sc), shape=Shape(2 * sc, 2 * sc)), Rectangle(center=Point(sc, 2.5 * sc), shape=Shape(sc, sc))]
                    create_stog(rs)
                elif op == "sat":
                    # other designs use the same variable naming scheme: encodings from the same pool, any order, either construction
                    for coefs, b in rng.sample(SAT_POOL, rng.randint(1, 5)):
                        sm = sat_encode(coefs, b + rng.choice([0, 0, 1, -1]), rng.random() < 0.5)
                        if rng.random() < 0.5:      # every feature of the manager is used by other designs: flipped and prioritised variables
                            names = [v for v in sm.vtable if isinstance(v, str) and v.startswith("def_x")]
                            for v in rng.sample(names, min(2, len(names))):
                                sm.setflipped(v)
                            try:
                                sm.prioritize([sm.newvar("x0")])
                            except Exception:  # noqa
                                pass
                        sm.solve()
                    sm = SATManager()
                    sm.heuleencoding([sm.newvar(f"h{i}") for i in range(6)])
                elif op == "legal":
                    import tools.legalfloor.legalfloor as lf
                    n = Netlist(write_yaml(netlist_doc(1.0, 2, 0)))
                    ml, al, xl, yl, wl, hl, hyper, names = lf.netlist_to_utils(n)
                    lf.Model(ml, al, xl, yl, wl, hl, 30.0, 20.0, hyper, 3.0, names, 0.8, 0.5, 1.0, 1)
                elif op == "strop":
                    from tools.floorset_parser.floor_set_manager.strop import Strop
                    Strop("110\n111\n010", [1.0, 2.0, 1.0], [1.0, 1.0, 3.0])
                    Strop("11\n10")
        except Exception:  # noqa: the history may contain rejected designs; only the probe matters
            pass


def sibling(name, scale, seed):
    """The SAME kind of operation as the probe on a design that shares the probe's primary description (die outline and
    regions, module names, trunk rectangle, constraint left-hand sides, netlist) but differs in everything else: what a memo
    with an incomplete key, or a registry indexed by name, would confuse with the probe's design (added after seed C20-5)."""
    from frame.netlist.netlist import Netlist
    from frame.die.die import Die
    from frame.allocation.allocation import create_initial_allocation
    from frame.geometry.geometry import Rectangle, Point, Shape, create_stog
    write_yaml = lambda d: __import__("json").dumps(d, indent=1)  # noqa: E731  input documents are written WITHOUT the library (JSON is a subset of YAML): the harness must not depend on the code under test
    rng = random.Random(seed)
    s = scale
    try:
        with contextlib.redirect_stdout(io.StringIO()):
            if name == "load":
                Netlist(write_yaml(netlist_doc(s, 4, rng.choice([0, 2, 3]))))        # same module names, other kinds and places
            elif name == "die":
                spec = {"width": 20 * s, "height": 14 * s, "regions": [[2 * s, 12 * s, 4 * s, 4 * s, "#"], [15 * s, 3 * s, 6 * s, 2 * s, "DSP"]]}
                if rng.random() < 0.5:
                    Die(write_yaml(spec))                                                # same die, no netlist
                else:
                    Die(write_yaml(spec), Netlist(write_yaml(netlist_doc(s, 3, rng.choice([0, 1])))))   # same die, other fixed modules
            elif name == "refine":
                n = Netlist(write_yaml(netlist_doc(s, 3, rng.choice([0, 1]))))
                d = Die(f"{20 * s}x{14 * s}", n)
                d.split_refinable_regions(2.0, rng.choice([2, 4, 6]))
                create_initial_allocation(d).refine(0.6, 1).griddify()
            elif name == "allocdoc":
                # a design in which the rectangle description of one of the document's cells belongs to a fixed module, taken through the
                # operations that mark cells (added after seed C20-9: rectangles parsed once and shared between designs)
                n = Netlist(write_yaml({"Modules": {"F": {"fixed": True, "rectangles": [[1 * s, 1 * s, 2 * s, 2 * s]]}, "S": {"area": 2 * s * s, "center": [3 * s, 3 * s]}},
                                        "Nets": [["F", "S"]]}))
                d = Die(f"{4 * s}x{4 * s}", n)
                create_initial_allocation(d).refine(0.9, 1)
                from frame.allocation.allocation import Allocation
                # ... and the same cell descriptions as the probe's document, allocated for that design (marks the fixed module's cell)
                grid = [[[1 * s, 1 * s, 2 * s, 2 * s], {}], [[3 * s, 1 * s, 2 * s, 2 * s], {}], [[1 * s, 3 * s, 2 * s, 2 * s], {}], [[3 * s, 3 * s, 2 * s, 2 * s], {}]]
                Allocation(write_yaml(grid)).initial_allocation(n)
            elif name == "stog":
                rs = [Rectangle(center=Point(5 * s, 5 * s), shape=Shape(4 * s, 4 * s)), Rectangle(center=Point(5 * s, 2.5 * s), shape=Shape(2 * s, 1 * s))]
                if not Rectangle.epsilon_defined():
                    Rectangle.set_epsilon(1e-12 * s)
                create_stog(rs)
            elif name == "sat":
                for coefs, b in rng.sample(SAT_POOL, 4):
                    sat_encode(coefs, b + rng.choice([1, -1, 2]), rng.random() < 0.5).solve()
            elif name == "legal":
                import tools.legalfloor.legalfloor as lf
                n = Netlist(write_yaml({"Modules": {"A": {"area": 9 * s * s, "rectangles": [[3 * s, 3 * s, 3 * s, 2 * s], [3 * s, 5 * s, 1 * s, 2 * s]]},
                                                    "F": {"fixed": True, "rectangles": [[9 * s, 2 * s, 2 * s, 2 * s]]}}, "Nets": [["A", "F"]]}))
                ml, al, xl, yl, wl, hl, hyper, names = lf.netlist_to_utils(n)
                lf.Model(ml, al, xl, yl, wl, hl, 12.0 * s, 10.0 * s, hyper, 3.0, names, 0.9, 0.3, 1.0, 1)
    except Exception:  # noqa: only the probe matters
        pass


def probe(name, scale):
    from frame.netlist.netlist import Netlist
    from frame.die.die import Die
    from frame.allocation.allocation import create_initial_allocation
    from frame.geometry.geometry import Rectangle, Point, Shape, create_stog
    write_yaml = lambda d: __import__("json").dumps(d, indent=1)  # noqa: E731  input documents are written WITHOUT the library (JSON is a subset of YAML): the harness must not depend on the code under test
    out = {}
    s = scale
    with contextlib.redirect_stdout(io.StringIO()):
        if name == "load":
            n = Netlist(write_yaml(netlist_doc(s, 4, 1)))
            out["modules"] = [(m.name, m.is_soft, m.is_fixed, r9(m.area()), [r9(m.center.x), r9(m.center.y)],
                               [(r9(r.center.x), r9(r.center.y), r9(r.shape.w), r9(r.shape.h), r.location.name) for r in m.rectangles]) for m in n.modules]
            out["wl"] = r9(n.wire_length)
        elif name == "nearmiss_load":
            verdicts = []
            # near-miss designs: accept / reject verdicts must not depend on history
            for gap in (0.0, 1e-7, 1e-4):
                doc = {"Modules": {"H": {"hard": True, "rectangles": [[2 * s, 2 * s, 2 * s, 2 * s], [(4 - gap) * s, 2 * s, 2 * s, 2 * s]]}}}
                try:
                    n2 = Netlist(write_yaml(doc))
                    verdicts.append(("accepted", n2.modules[0].has_stog))
                except AssertionError:
                    verdicts.append("rejected")
            out["verdicts"] = verdicts
        elif name.startswith("degenerate"):
            # the smallest designs of every kind (added after seeds C20-13/14: designs that leave the class-wide tolerance undefined made the next operation
            # raise in a fresh interpreter only): pads only, one module, no nets, one cell, one region, a 1 x 1 grid
            from frame.allocation.allocation import Allocation
            res = {}

            only = name.split(":", 1)[1] if ":" in name else None      # each degenerate design is probed ALONE in its interpreter: the first one would define the tolerances for the others

            def attempt(tag, fn):
                if only and tag != only:
                    return
                try:
                    res[tag] = fn()
                except Exception as e:  # noqa
                    res[tag] = f"raised {type(e).__name__}: {e}"
            key = lambda rs: sorted((r9(r.center.x), r9(r.center.y), r9(r.shape.w), r9(r.shape.h), r.region) for r in rs)  # noqa
            cells = lambda al: sorted((r9(x.rect.center.x), r9(x.rect.center.y), r9(x.rect.shape.w), r9(x.rect.shape.h), x.depth,  # noqa
                                       sorted((k, r9(v)) for k, v in x.alloc.items())) for x in al.allocations)
            pads = {"Modules": {"P1": {"terminal": True, "center": [0, 1 * s]}, "P2": {"terminal": True, "fixed": True, "center": [4 * s, 3 * s]}}, "Nets": [["P1", "P2"]]}

            def pads_on_a_die():
                n2 = Netlist(write_yaml(pads))
                d2 = Die(f"{4 * s}x{3 * s}", n2)
                return [r9(n2.wire_length), key(d2.ground_regions), key(d2.fixed_regions)]
            attempt("pads_only_on_a_die", pads_on_a_die)
            attempt("one_cell_griddify", lambda: cells(Allocation(write_yaml([[[2 * s, 1 * s, 4 * s, 2 * s], {"A": 0.5}]])).griddify()))
            attempt("one_cell_refine", lambda: cells(Allocation(write_yaml([[[2 * s, 1 * s, 4 * s, 2 * s], {"A": 0.5}]])).refine(0.9, 2)))
            attempt("one_cell_uniform", lambda: cells(Allocation(write_yaml([[[2 * s, 1 * s, 4 * s, 2 * s], {}]])).uniform_refinement_depth()))
            attempt("one_soft_module_no_nets", lambda: [(m.name, r9(m.area())) for m in Netlist(write_yaml({"Modules": {"A": {"area": 2 * s * s}}})).modules])
            attempt("one_hard_rectangle", lambda: [[r.location.name for r in m.rectangles] for m in
                                                   Netlist(write_yaml({"Modules": {"H": {"hard": True, "rectangles": [[1 * s, 1 * s, 2 * s, 2 * s]]}}})).modules])

            def plain_die():
                d2 = Die(f"{3 * s}x{2 * s}")
                g0 = key(d2.ground_regions)
                d2.initial_grid(1, 1)
                g1 = key(d2.ground_regions)
                d2.split_refinable_regions(2.0, 1)
                return [g0, g1, key(d2.ground_regions)]
            attempt("plain_die_1x1_grid_one_region", plain_die)
            attempt("whole_die_region", lambda: (lambda d2: [key(d2.ground_regions), key(d2.specialized_regions)])(
                Die(write_yaml({"width": 4 * s, "height": 2 * s, "regions": [[2 * s, 1 * s, 4 * s, 2 * s, "BRAM"]]}))))

            def stog_one():
                rs = [Rectangle(center=Point(1 * s, 1 * s), shape=Shape(2 * s, 1 * s))]
                return [create_stog(rs), rs[0].location.name]
            attempt("recognise_one_rectangle", stog_one)
            out["degenerate"] = res
        elif name == "decimal":
            # designs given with plain decimal numbers: sides that coincide in exact arithmetic differ by binary rounding (an ulp or two), which
            # is what the relative tolerance exists to absorb -- whatever comparable design defined it first (added after seed C20-12: a die that
            # defines the tolerance first made it 1e-11 times too small).  Coordinates stay below 2, so the noise (< 5e-16) is below the smallest
            # tolerance a design within a factor 1000 can induce (1e-15).
            from fractions import Fraction as Fr
            res = []
            for (tx, ty, tw, th), (bx, by, bw, bh) in [(("1.0", "1.1", "1.8", "0.6"), ("0.7", "1.7", "0.6", "0.6")), (("1.0", "0.7", "1.6", "0.2"), ("1.3", "0.9", "0.4", "0.2")),
                                                       (("0.9", "1.0", "0.6", "1.4"), ("1.35", "1.2", "0.3", "0.2")), (("1.0", "1.0", "0.6", "0.6"), ("0.55", "1.0", "0.3", "0.2"))]:
                t, b = [Fr(v) for v in (tx, ty, tw, th)], [Fr(v) for v in (bx, by, bw, bh)]
                exact = (t[1] + t[3] / 2 == b[1] - b[3] / 2) or (t[0] + t[2] / 2 == b[0] - b[2] / 2) or (t[0] - t[2] / 2 == b[0] + b[2] / 2)
                assert exact, "harness: the branch must abut the trunk in exact arithmetic"
                for flip in (False, True):
                    doc = {"Modules": {"M": dict({"hard": True, "rectangles": [[float(v) for v in (tx, ty, tw, th)], [float(v) for v in (bx, by, bw, bh)]]},
                                                 **({"flip": True} if flip else {})), "P": {"area": 0.5, "center": [0.5, 1.9]}}, "Nets": [["M", "P"]]}
                    try:
                        n2 = Netlist(write_yaml(doc))
                        res.append(("accepted", [r.location.name for r in n2.get_module("M").rectangles], r9(n2.get_module("M").area())))
                    except AssertionError:
                        res.append("rejected")
            out["netlists"] = res
            dies = []
            for sp in [{"width": 1, "height": 1, "regions": [[0.15, 0.5, 0.3, 1, "A"], [0.45, 0.5, 0.3, 1, "B"]]},
                       {"width": 1.9, "height": 1.3, "regions": [[0.35, 0.65, 0.7, 1.3, "A"], [1.3, 0.35, 1.2, 0.7, "#"], [1.0, 1.0, 0.6, 0.6, "B"]]}]:
                try:
                    d2 = Die(write_yaml(sp))
                    key = lambda rs: sorted((r9(r.center.x), r9(r.center.y), r9(r.shape.w), r9(r.shape.h), r.region) for r in rs)  # noqa
                    dies.append(("accepted", key(d2.ground_regions), key(d2.specialized_regions), key(d2.blockages)))
                except AssertionError:
                    dies.append("rejected")
            out["dies"] = dies
        elif name == "die":
            n = Netlist(write_yaml(netlist_doc(s, 3, 2)))
            spec = {"width": 20 * s, "height": 14 * s, "regions": [[2 * s, 12 * s, 4 * s, 4 * s, "#"], [15 * s, 3 * s, 6 * s, 2 * s, "DSP"]]}
            d = Die(write_yaml(spec), n)
            key = lambda rs: sorted((r9(r.center.x), r9(r.center.y), r9(r.shape.w), r9(r.shape.h), r.region) for r in rs)  # noqa
            out["ground"], out["spec"], out["fixed"] = key(d.ground_regions), key(d.specialized_regions), key(d.fixed_regions)
            d.split_refinable_regions(1.8, 7)
            out["refined"] = key(d.ground_regions + d.specialized_regions)
        elif name == "nearmiss_die":
            verdicts = []
            for over in (0.0, 1e-7, 1e-3):
                sp = {"width": 10 * s, "height": 10 * s, "regions": [[2.5 * s, 5 * s, (5 + over) * s, 10 * s, "A"], [7.5 * s, 5 * s, 5 * s, 10 * s, "B"]]}
                try:
                    Die(write_yaml(sp))
                    verdicts.append("accepted")
                except AssertionError:
                    verdicts.append("rejected")
            out["verdicts"] = verdicts
        elif name == "refine":
            n = Netlist(write_yaml(netlist_doc(s, 3, 2)))
            d = Die(f"{20 * s}x{14 * s}", n)
            d.split_refinable_regions(2.0, 4)
            a = create_initial_allocation(d)
            b = a.refine(0.6, 2).uniform_refinement_depth().griddify()
            out["cells"] = sorted((r9(x.rect.center.x), r9(x.rect.center.y), r9(x.rect.shape.w), r9(x.rect.shape.h), x.depth,
                                   sorted((k, r9(v)) for k, v in x.alloc.items())) for x in b.allocations)
            out["must"] = [a.must_be_refined(t) for t in (0.1, 0.5, 0.9)]
        elif name == "allocdoc":
            from frame.allocation.allocation import Allocation
            cells = [[[1 * s, 1 * s, 2 * s, 2 * s], {"A": 0.5, "B": 0.25}], [[3 * s, 1 * s, 2 * s, 2 * s], {"A": 0.2}], [[1 * s, 3 * s, 2 * s, 2 * s], {"B": 0.5}],
                     [[3 * s, 3 * s, 2 * s, 2 * s], {"A": 0.1, "B": 0.1}]]
            a = Allocation(write_yaml(cells))
            b = a.refine(0.6, 1).griddify()
            out["cells"] = sorted((r9(x.rect.center.x), r9(x.rect.center.y), r9(x.rect.shape.w), r9(x.rect.shape.h), x.depth, x.rect.fixed,
                                   sorted((k, r9(v)) for k, v in x.alloc.items())) for x in b.allocations)
            out["must"] = [a.must_be_refined(t) for t in (0.1, 0.3, 0.9)]
        elif name in ("stog", "nearmiss_stog"):
            res = []
            for gap in ((0.0, 1e-3) if name == "stog" else (1e-9, 1e-6)):
                rs = [Rectangle(center=Point(5 * s, 5 * s), shape=Shape(4 * s, 4 * s)), Rectangle(center=Point(5 * s, (7.5 + gap) * s), shape=Shape(2 * s, 1 * s)),
                      Rectangle(center=Point((7.5 + gap) * s, 5 * s), shape=Shape(1 * s, 2 * s))]
                if not Rectangle.epsilon_defined():
                    Rectangle.set_epsilon(1e-12 * s)
                res.append((create_stog(rs), [r.location.name for r in rs]))
            out["stog"] = res
        elif name == "sat":
            import tools.rect.pseudobool as pb
            from tools.rect.satmanager import SATManager
            digests = []
            for dec in (False, True):
                for coefs, b in SAT_POOL:
                    sm = sat_encode(coefs, b, dec)
                    ren, clauses = {}, []
                    for c in sm.clauses:
                        row = []
                        for lit in c:
                            v = lit.v
                            if v.startswith("robdd_") or v.startswith("aux_"):
                                ren.setdefault(v, f"n{len(ren)}")
                                v = ren[v]
                            row.append(("" if lit.s else "-") + v)
                        clauses.append(row)
                    sat = sm.solve()
                    model = [int(sm.value(sm.newvar(f"x{i}"))) for i in range(len(coefs))] if sat else None
                    ok = None if model is None else (sum(c * v for c, v in zip(coefs, model)) >= b)
                    digests.append(dict(constraint=[coefs, b, dec], clauses=clauses, sat=sat, model_satisfies_the_constraint=ok))
            out["encodings"] = digests
        elif name == "legal":
            import tools.legalfloor.legalfloor as lf
            n = Netlist(write_yaml({"Modules": {"A": {"area": 13 * s * s, "rectangles": [[3 * s, 3 * s, 4 * s, 2 * s], [2 * s, 5 * s, 2 * s, 2 * s], [5.5 * s, 3 * s, 1 * s, 1 * s]]},
                                                "F": {"fixed": True, "rectangles": [[10 * s, 8 * s, 2 * s, 2 * s]]}}, "Nets": [["A", "F"]]}))
            ml, al, xl, yl, wl, hl, hyper, names = lf.netlist_to_utils(n)
            m = lf.Model(ml, al, xl, yl, wl, hl, 12.0 * s, 10.0 * s, hyper, 3.0, names, 0.9, 0.3, 1.0, 1)
            eqs = []
            for g, es in m.gekko.constraints.items():
                if g in ("radius",):
                    continue
                for e in es:
                    eqs.append((g, e.name, r9(e.lhs.evaluate()), r9(e.rhs.evaluate()), bool(e.is_equation_met())))
            for mod in m.M:
                for g, e in mod.get_constraints(m.gekko):
                    eqs.append((g, e.name, r9(e.lhs.evaluate()), r9(e.rhs.evaluate()), bool(e.is_equation_met())))
            out["equations"] = eqs
            # the variables the wrapper registered (added after seed C20-10: a default argument evaluated once made later models forget variables)
            out["variables"] = sorted(str(v.data.get("name")) for v in m.gekko.variable_list)
            out["variable_set"] = sorted(m.gekko.variable_set)
            import tools.legalfloor.expression_tree as et
            out["epsilon"] = r9(et.get_epsilon())
        else:
            raise SystemExit("unknown probe " + name)
    return out


def main():
    name, hist = sys.argv[1], sys.argv[2]
    scale = float(sys.argv[3]) if len(sys.argv) > 3 else 1.0
    if hist.startswith("sib"):          # a random history followed by a sibling of the probe's own design
        history(int(hist[3:]))
        sibling(name, scale, int(hist[3:]))
    elif hist.startswith("def:"):       # def:<operation>:<exponent>[:seed]  -- the first operation of the history is <operation> at scale 10^<exponent>
        parts = hist.split(":")
        history(int(parts[3]) if len(parts) > 3 else 7, first=(parts[1], 10.0 ** float(parts[2])))
    elif hist != "none":
        history(int(hist))
    res = probe(name, scale)
    txt = json.dumps(res, sort_keys=True, default=str)
    print(json.dumps(dict(digest=hashlib.sha256(txt.encode()).hexdigest(), result=res), default=str))


if __name__ == "__main__":
    main()
