"""C08 -- the rectilinear-shape search admits exactly the k-box single-trunk orthogons (tools/rect/rect.py, rect_io.py).
Bounded exhaustive leg: the CNF built by the real rect.solve (captured from its SATManager) is enumerated completely and
its projected model set is compared with a brute-force enumeration of the specification."""
import contextlib
import io
import itertools
import os
import types

from pysat.solvers import Solver

from vf.core import contract
import tools.rect.satmanager as smod
import tools.rect.rect_io as rio

P = "C08"
R = "tools.rect."
_rect = None


def rect_module():
    """tools.rect.rect imports a Windows-only greedy helper lazily (Carrier()); the module itself imports fine"""
    global _rect
    if _rect is None:
        with contextlib.redirect_stdout(io.StringIO()):
            import tools.rect.rect as r
        _rect = r
    return _rect


def _cell_order(nc, nr, order):
    """order of the cells in the document: row-major ascending (0), rows top-down (1), column-major descending (2), shuffled (3)"""
    cells = [(i, j) for j in range(nr) for i in range(nc)]
    if order == 1:
        cells = [(i, j) for j in reversed(range(nr)) for i in range(nc)]
    elif order == 2:
        cells = [(i, j) for i in reversed(range(nc)) for j in reversed(range(nr))]
    elif order == 3:
        import random
        random.Random(nc * 31 + nr).shuffle(cells)
    return cells


def alloc_yaml(xs, ys, occ, order=0):
    """allocation document of the full lattice of cells with column lines xs and row lines ys; occ[row][col] for module M"""
    rows = []
    for (i, j) in _cell_order(len(xs) - 1, len(ys) - 1, order):
        if True:
            cx, cy, w, h = (xs[i] + xs[i + 1]) / 2, (ys[j] + ys[j + 1]) / 2, xs[i + 1] - xs[i], ys[j + 1] - ys[j]
            p = occ[j][i]
            al = "{M: %r}" % p if p > 0 else "{N: 0.5}"
            rows.append(f"[[{cx!r}, {cy!r}, {w!r}, {h!r}], {al}]")
    return "[" + ",\n ".join(rows) + "]\n"


def build_problem(xs, ys, occ, order=0):
    r = rect_module()
    from frame.geometry.geometry import Rectangle
    Rectangle.undefine_epsilon()
    if min(xs) < 0 or min(ys) < 0:
        # allocations live in the positive quadrant; a grid elsewhere is handed to select_box as the parsed structure get_alloc builds
        rl = []
        for (i, j) in _cell_order(len(xs) - 1, len(ys) - 1, order):
            if True:
                cx, cy, w, h = (xs[i] + xs[i + 1]) / 2, (ys[j] + ys[j + 1]) / 2, xs[i + 1] - xs[i], ys[j + 1] - ys[j]
                p = occ[j][i]
                rl.append({f"b{len(rl)}": [{"dim": [cx, cy, w, h]}, {"mod": [{"M": p}] if p > 0 else [{"N": 0.5}]}]})
        ifile = {"Width": xs[-1] - xs[0], "Height": ys[-1] - ys[0], "Rectangles": rl}
    else:
        ifile = rio.get_alloc(alloc_yaml(xs, ys, occ, order))
    # the tool integerises areas as int(factor * area) with factor 10000 by default (option --sf sets it by hand): lattices whose
    # cells are smaller than 0.01 square units get the factor that makes their smallest cell 100 units, as a user would have to
    amin = min((xs[i + 1] - xs[i]) * (ys[j + 1] - ys[j]) for i in range(len(xs) - 1) for j in range(len(ys) - 1))
    factor = 10000 if amin * 10000 >= 100 else round(100 / amin)
    carrier = types.SimpleNamespace(input_problem=[], selbox="", factor=factor, inibox=(0, 0, 0, 0, 0), blocks=[], prev_x={}, prev_y={},
                                    next_x={}, next_y={}, xcoords=[], ycoords=[], theoreticalBestArea=0.0, gm=None)
    carrier.input_problem, carrier.selbox = rio.select_box("M", ifile)
    r.definecoords(carrier)
    carrier.theoreticalBestArea = 0
    for b in carrier.blocks:
        carrier.theoreticalBestArea += r.area(carrier, b, True)
    return r, ifile, carrier


def run_solve(r, ifile, carrier, ratio, dif, k):
    """calls the real rect.solve; returns (result, captured SATManager)"""
    captured = []
    orig = smod.SATManager.solve

    def spy(self):
        captured.append(self)
        return orig(self)
    smod.SATManager.solve = spy
    try:
        with contextlib.redirect_stdout(io.StringIO()):
            res = r.solve(carrier, ifile, ratio, dif, k)
    finally:
        smod.SATManager.solve = orig
    return res, captured[0]


def cell_index(carrier, xs, ys):
    """(col, row) of every block of the input problem, located by its coordinates among the lattice lines"""
    idx = {}
    for b, (x0, y0, x1, y1, p) in enumerate(carrier.input_problem):
        col = min(range(len(xs) - 1), key=lambda i: abs(xs[i] - x0))
        row = min(range(len(ys) - 1), key=lambda j: abs(ys[j] - y0))
        idx[b] = (col, row)
    return idx


def all_rects(nc, nr):
    return [(c0, r0, c1, r1) for c0 in range(nc) for c1 in range(c0, nc) for r0 in range(nr) for r1 in range(r0, nr)]


def cells_of(rc):
    c0, r0, c1, r1 = rc
    return frozenset((c, r) for c in range(c0, c1 + 1) for r in range(r0, r1 + 1))


def abuts_within(tr, br):
    """branch br abuts trunk tr along one side, within the trunk's extent (cells coordinates, inclusive)"""
    tc0, tr0, tc1, tr1 = tr
    bc0, br0, bc1, br1 = br
    if bc0 == tc1 + 1 or bc1 == tc0 - 1:       # east / west of the trunk
        return tr0 <= br0 and br1 <= tr1
    if br0 == tr1 + 1 or br1 == tr0 - 1:       # below / above
        return tc0 <= bc0 and bc1 <= tc1
    return False


def spec_shapes(nc, nr, k):
    """all k-box single-trunk orthogons on the lattice: ordered tuples (trunk, branch_1, .., branch_{k-1}) of cell sets"""
    rects = all_rects(nc, nr)
    out = set()
    for t in rects:
        tc = cells_of(t)
        cand = [b for b in rects if abuts_within(t, b) and not (cells_of(b) & tc)]
        for branches in itertools.product(cand, repeat=k - 1):
            sets = [cells_of(b) for b in branches]
            ok = all(not (sets[i] & sets[j]) for i in range(len(sets)) for j in range(i + 1, len(sets)))
            if ok:
                out.add((tc,) + tuple(sets))
    return out


def cnf_models(sm, carrier, idx, k, limit=200000):
    """all models of the CNF projected on the per-box cell variables b{i}_{cell}"""
    def lit(x):
        return -sm.ttable[x.v] if x.s == sm.isflipped(x.v) else sm.ttable[x.v]
    cnf = [[lit(x) for x in c] for c in sm.clauses]
    proj = {(i, b): sm.ttable[f"b{i}_{b}"] for i in range(k) for b in carrier.blocks}
    solver = Solver(bootstrap_with=cnf)
    models = set()
    while solver.solve():
        m = set(v for v in solver.get_model() if v > 0)
        shape = tuple(frozenset(idx[b] for b in carrier.blocks if proj[(i, b)] in m) for i in range(k))
        models.add(shape)
        solver.add_clause([(-v if v in m else v) for v in proj.values()])
        if len(models) > limit:
            break
    solver.delete()
    return models


def objective(r, carrier, idx, shape, ratio):
    union = set().union(*shape)
    sel = sum(r.area(carrier, b, True) for b in carrier.blocks if idx[b] in union)
    real = sum(r.area(carrier, b, False) for b in carrier.blocks if idx[b] in union)
    return ratio * sel - real


def fmt_shape(shape):
    return [sorted(s) for s in shape]


GRIDS_QUICK = [
    ([0, 1, 2, 3, 4, 5], [0, 1]), ([0, 1], [0, 1, 2, 3, 4]), ([0, 1], [0, 1]), ([2, 3.5, 4, 6], [1, 2]), ([0.5, 0.75], [-1, 0, 2]),    # ONE row / column / cell (after seed C08-13)
    ([0, 1, 2], [0, 1, 2]), ([0, 1, 2, 3], [0, 1, 2]), ([0, 1, 2], [0, 1, 2, 3]), ([0, 1, 2, 3], [0, 1, 2, 3]),
    ([0, 1, 3, 4], [0, 2, 3]),                       # non-uniform, origin 0, integer
    ([1, 2, 3], [0, 1, 2]), ([0, 1, 2], [2, 3, 4]), ([1, 2, 4], [1, 3, 4]),     # origin not at 0
    ([0, 1, 2.5], [0, 1, 2]), ([0, 1.5, 2.5], [0, 0.5, 2.5]),                    # fractional size
    ([0, 0.5, 1], [0, 0.25, 1]),
    ([0, 0.1, 0.2, 0.3], [0, 0.1, 0.2]), ([0, 1 / 3, 2 / 3, 1], [0, 1 / 3, 2 / 3]), ([0.1, 0.2, 0.4], [0.3, 0.6, 0.7]),   # decimal / non-representable steps
    ([0, 0.7, 1.4, 2.1], [0, 0.7, 1.4]),
    ([0, 1, 2, 3, 4], [0, 1, 2, 3]), ([2, 3, 5, 6, 8], [1, 2, 3]),
    ([-3, -2, -1], [-2, -1, 0]), ([-0.9, -0.8, -0.7000000000000001, -0.6000000000000001], [0, 0.1, 0.2]),          # origins left of / below zero
    ([-3.7, -3.6, -3.5, -3.4], [-1.0, -0.7, -0.4]), ([-1, 0, 1], [-0.5, 0.5, 1.5]),
    # origins far from zero relative to the cell size / lines that agree in their first six digits (added after seed C08-7)
    ([2500003, 2500004, 2500005, 2500006], [0, 1, 2]), ([0, 1, 2], [1000000.25, 1000000.5, 1000001.0]), ([0.1234561, 0.1234562, 0.1234564], [0, 1e-7, 3e-7]),
]
GRIDS_MORE = [([0, 1, 2, 3, 4], [0, 1, 2, 3]), ([0, 1, 2, 3], [0, 1, 2, 3, 4]), ([2, 3, 5, 6, 8], [1, 2, 3]), ([0, 0.5, 1.5, 2.25], [0, 1, 1.75, 3]),
              ([0.5, 1.5, 2.5], [0.5, 1.5, 2.5]), ([0, 1, 2, 3, 4, 5], [0, 1, 2]),
              ([0, 1, 2, 3, 4], [0, 1, 2, 3, 4]),                                            # 4x4 cells
              ([0, 1e-3, 2e-3, 3e-3], [0, 1e-3, 2e-3]), ([1000, 2000, 3500], [500, 1500, 2500, 4000]),      # small and large scales
              ([1e6, 1e6 + 1, 1e6 + 2, 1e6 + 3], [0, 1, 2]), ([-1e-3, 0, 2e-3], [-5e-4, 5e-4, 1.5e-3, 2e-3]),   # far origin, tiny around zero
              ([0, 0.3, 0.6, 0.8999999999999999, 1.2], [0, 0.3, 0.6]), ([0, 1, 2], [0, 1, 2, 3, 4, 5]), ([0, 2, 3, 7], [0, 5, 6, 7, 12])]


def _occ_patterns(nc, nr, n):
    import random
    rng = random.Random(nc * 100 + nr)
    pats = [[[1.0] * nc for _ in range(nr)]]
    for _ in range(n - 1):
        pats.append([[rng.choice([0.0, 0.5, 1.0]) for _ in range(nc)] for _ in range(nr)])
    return pats


@contract(P, kind="enum", functions=[R + "rect.enforce_bb", R + "rect.solve", R + "rect.definecoords", R + "rect.area", R + "rect_io.select_box",
                                     R + "rect_io.get_alloc"],
          scope="bounded: lattices up to 4x3 cells (up to 4x4 / 5x2 / 2x5 and scaled / shifted lattices thorough), uniform and non-uniform, origin 0 and not, integer and fractional; k = 1..3",
          params=[dict(g=i) for i in range(len(GRIDS_QUICK))] + [dict(g=100 + i) for i in range(len(GRIDS_MORE))])
def model_set_is_exactly_the_single_trunk_orthogons(g, replay=None):
    tier = os.environ.get("VERIF_TIER", "quick")
    if g >= 100 and tier != "thorough":
        return dict(evaluations=1, distinct_nontrivial=0, exhaustive=True, failures=[], rule="(thorough only)", samples=["skipped in quick"], skipped=True)
    xs, ys = (GRIDS_QUICK[g] if g < 100 else GRIDS_MORE[g - 100])
    nc, nr = len(xs) - 1, len(ys) - 1
    failures, evals, nontrivial, samples = [], 0, 0, []
    ratio = 2.0
    for oi, occ in enumerate(_occ_patterns(nc, nr, 3 if tier != "thorough" else 6)):
        if not any(p > 0 for row in occ for p in row):
            continue
        # the cells are listed in a different order for every pattern (the search must not depend on the order of the document)
        r, ifile, carrier = build_problem(xs, ys, occ, order=(oi + g) % 4)
        idx = cell_index(carrier, xs, ys)
        for k in (1, 2, 3):
            if k == 3 and nc * nr > 9 and tier != "thorough":
                continue
            spec = spec_shapes(nc, nr, k)
            # (a) with a bound below every objective: the model set is the whole specification
            low = -10 ** 12
            res, sm = run_solve(r, ifile, carrier, ratio, (low, 1), k)
            models = cnf_models(sm, carrier, idx, k)
            evals += 1
            nontrivial += 1
            spurious, missing = models - spec, spec - models
            if len(samples) < 2:
                samples.append(dict(xs=xs, ys=ys, k=k, models=len(models), spec=len(spec)))
            if spurious or missing:
                failures.append(dict(clause="cnf_models_are_exactly_the_k_box_single_trunk_orthogons", xs=xs, ys=ys, occ=occ, k=k,
                                     models=len(models), spec=len(spec),
                                     spurious=[fmt_shape(s) for s in list(spurious)[:2]], missing=[fmt_shape(s) for s in list(missing)[:2]]))
                continue
            # (b) cost bounds: returns a shape meeting the bound iff one exists; returned rectangles are its boxes
            objs = sorted({objective(r, carrier, idx, s, ratio) for s in spec})
            if not objs:        # fewer cells than boxes: no shape exists, whatever the bound
                (nd, _), rects_out, q = res
                if len(rects_out) > 0:
                    failures.append(dict(clause="returns_a_shape_iff_one_meets_the_cost_bound", xs=xs, ys=ys, occ=occ, k=k, bound=low, exists=False, returned=rects_out))
                continue
            best = objs[-1]
            for d in {int(best), int(best) + 1, int(objs[len(objs) // 2])}:
                exists = any(o >= d for o in objs)
                res, sm2 = run_solve(r, ifile, carrier, ratio, (d, 1), k)
                evals += 1
                (nd, _), rects_out, q = res
                found = len(rects_out) > 0
                if found != exists:
                    failures.append(dict(clause="returns_a_shape_iff_one_meets_the_cost_bound", xs=xs, ys=ys, occ=occ, k=k, bound=d,
                                         exists=exists, returned=rects_out))
                    continue
                if found:
                    # the returned rectangles are the boxes of an admissible shape meeting the bound
                    def box_cells(rc):
                        x0, y0, x1, y1 = rc
                        return frozenset((c, rw) for c in range(nc) for rw in range(nr)
                                         if xs[c] >= x0 - 1e-9 and xs[c + 1] <= x1 + 1e-9 and ys[rw] >= y0 - 1e-9 and ys[rw + 1] <= y1 + 1e-9)
                    shape = tuple(box_cells(rc) for rc in rects_out)
                    if shape not in spec or objective(r, carrier, idx, shape, ratio) < d:
                        failures.append(dict(clause="returned_rectangles_are_the_boxes_of_an_admissible_shape_meeting_the_bound", xs=xs, ys=ys,
                                             occ=occ, k=k, bound=d, returned=rects_out))
        if len(failures) >= 4:
            break
    from frame.geometry.geometry import Rectangle
    Rectangle.undefine_epsilon()
    return dict(evaluations=evals, distinct_nontrivial=nontrivial, exhaustive=True, failures=failures[:4],
                rule="for each lattice (column / row lines given) and occupancy pattern over {0, 0.5, 1}: the allocation document is loaded by "
                     "rect_io.get_alloc/select_box, rect.solve builds the formula (its SATManager is captured), ALL models are enumerated "
                     "with blocking clauses and projected on the per-box cell variables; specification: brute-force set of ordered k-tuples "
                     "(trunk rectangle, branch rectangles disjoint, each abutting the trunk on one side within its extent); plus cost bounds "
                     "at the optimum, optimum+1 and a median objective; non-trivial = (lattice, occupancy, k) cases",
                samples=samples, bound=f"{nc}x{nr} cells")


@contract(P, canary=True, kind="enum")
def canary_spec_without_extent_condition(replay=None):
    """a deliberately wrong specification (branches need not stay within the trunk's extent) must disagree with the CNF"""
    xs, ys = [0, 1, 2], [0, 1, 2]
    r, ifile, carrier = build_problem(xs, ys, [[1.0, 1.0], [1.0, 1.0]])
    idx = cell_index(carrier, xs, ys)
    res, sm = run_solve(r, ifile, carrier, 2.0, (-10 ** 12, 1), 2)
    models = cnf_models(sm, carrier, idx, 2)
    rects = all_rects(2, 2)
    wrong = {(cells_of(t), cells_of(b)) for t in rects for b in rects if not (cells_of(t) & cells_of(b))}
    return dict(evaluations=1, distinct_nontrivial=2, failures=[dict(clause="canary")] if wrong != models else [], rule="canary", samples=[len(models)])
