"""Shared by C05 / C04 / C03 / C19: netlist documents as YAML *trees* with symbolic numbers (read_yaml passes trees
through unchanged, so the real Netlist(tree) path is executed without the YAML text layer)."""
from vf import core, symx
from vf.symx import sand, sor, snot, seq, siff, simplies, sif, smax, smin, SymEnum
from vf.specs import box, ovl
from .common import *  # noqa

import frame.netlist.netlist as nlmod
import frame.netlist.module as modmod
import frame.netlist.netlist_types as ntypes
import frame.netlist.yaml_read_netlist as yread
import frame.netlist.yaml_write_netlist as ywrite
from frame.netlist.netlist import Netlist
from frame.netlist.module import Module

core.shim(nlmod, modmod, ntypes, yread, ywrite)
N = "frame.netlist."
LOC = Rectangle.StogLocation


def stub_find_location(S, E, EA):
    """C06's contract of Rectangle.find_location (discharged there on every run) as a stub: keeps module loading linear."""
    from .C06_stog import spec_location
    if S.mode != "sym":
        return

    def stub(self, r):
        return SymEnum(LOC, symx.term(spec_location(self, r, E, EA)))
    S.patch(Rectangle, "find_location", stub)


def sym_rect(S, p, region=None):
    r = [S.real(p + "x", nonneg=True), S.real(p + "y", nonneg=True), S.real(p + "w", pos=True), S.real(p + "h", pos=True)]
    if region:
        r.append(region)
    return r


def soft_module(S, p, area="scalar", center=True, ar=None, nrect=0, regions=(None, None)):
    info = {}
    if area == "scalar":
        info["area"] = S.real(p + "A", pos=True)
    elif area == "ground_dict":
        info["area"] = {"_": S.real(p + "A", pos=True)}
    elif area == "one_region":
        info["area"] = {"LUT": S.real(p + "A", pos=True)}
    elif area == "two_regions":
        info["area"] = {"LUT": S.real(p + "A", pos=True), "DSP": S.real(p + "B", pos=True)}
    if center:
        info["center"] = [S.real(p + "cx"), S.real(p + "cy")]
    if ar == "scalar":
        info["aspect_ratio"] = S.real(p + "ar", pos=True)
    elif ar == "pair":
        lo, hi = S.real(p + "arlo"), S.real(p + "arhi")
        S.assume(sand(lo >= 0, lo <= 1, hi >= 1))
        info["aspect_ratio"] = [lo, hi]
    if nrect:
        info["rectangles"] = [sym_rect(S, f"{p}r{i}", regions[i] if i < len(regions) else None) for i in range(nrect)]
    return info


def hard_module(S, p, nrect=1, fixed=False, flip=False):
    info = {"fixed": True} if fixed else {"hard": True}
    if flip:
        info["flip"] = True
    info["rectangles"] = [sym_rect(S, f"{p}r{i}") for i in range(nrect)]
    return info


def terminal_module(S, p, center=True, fixed=False, nrect=0):
    info = {"terminal": True}
    if fixed:
        info["fixed"] = True
    if center:
        info["center"] = [S.real(p + "cx"), S.real(p + "cy")]
    if nrect:       # a pad with a physical size: accepted by the reader
        info["rectangles"] = [sym_rect(S, f"{p}r{i}") for i in range(nrect)]
    return info


def rect_area(r):
    return r[2] * r[3]


def centroid(rects):
    a = sum(rect_area(r) for r in rects)
    return sum(rect_area(r) * r[0] for r in rects) / a, sum(rect_area(r) * r[1] for r in rects) / a


def spec_area(info):
    """module area by definition on the source document"""
    if info.get("terminal"):
        return 0
    if info.get("hard") or info.get("fixed"):
        return sum(rect_area(r) for r in info.get("rectangles", []))
    a = info["area"]
    return sum(a.values()) if isinstance(a, dict) else a


def spec_area_regions(info):
    if info.get("terminal"):
        return {"_": 0}
    if info.get("hard") or info.get("fixed"):
        return {"_": sum(rect_area(r) for r in info.get("rectangles", []))}
    a = info["area"]
    return dict(a) if isinstance(a, dict) else {"_": a}


def spec_center(info):
    if info.get("rectangles"):
        return centroid(info["rectangles"])
    if "center" in info:
        return tuple(info["center"])
    return None


def spec_wire_length(S, pins, weight):
    """weight * sum of distances from the member centres to their mean"""
    n = len(pins)
    mx, my = sum(p[0] for p in pins) / n, sum(p[1] for p in pins) / n
    tot = 0
    for p in pins:
        dx, dy = mx - p[0], my - p[1]
        tot = tot + S.sqrt(dx * dx + dy * dy)
    return tot * weight


def same_rect(g, r, fixed=False, hard=False):
    reg = r[4] if len(r) == 5 else "_"
    return sand(seq(g.center.x, r[0]), seq(g.center.y, r[1]), seq(g.shape.w, r[2]), seq(g.shape.h, r[3]),
                g.region == reg and g.fixed == fixed and g.hard == hard)


def rect_multiset_eq(gs, rs, fixed=False, hard=False):
    """the module's rectangles are the document's, in document order up to the trunk swap of create_stog (first <-> k)"""
    if len(gs) != len(rs):
        return False
    n = len(rs)
    if n == 0:
        return True
    opts = []
    for k in range(n):
        perm = list(range(n))
        perm[0], perm[k] = perm[k], perm[0]
        opts.append(sand(*[same_rect(gs[i], rs[perm[i]], fixed, hard) for i in range(n)]))
    return sor(*opts)
