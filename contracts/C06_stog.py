"""C06 -- single-trunk orthogon recognition (frame/geometry/geometry.py: Rectangle.find_location, create_stog;
frame/netlist/module.py: Module.create_stog / has_stog)."""
import z3

from vf.core import contract
from vf.symx import SymEnum, SymInt, enum_term
from vf.specs import box, ovl, almost
from .common import *  # noqa

P = "C06"
LOC = Rectangle.StogLocation
IDX = {m: i for i, m in enumerate(LOC)}
NOPOLY = IDX[LOC.NO_POLYGON]


def abuts(t, r, side, E, EA):
    """Property-level predicate: r abuts side `side` of t: it does not overlap t, the facing sides coincide (within the
    distance tolerance) and r's extent along that side lies within t's extent (within the tolerance)."""
    T, R = box(t), box(r)
    nov = ovl(t, r) <= EA
    if side == LOC.NORTH:
        return sand(nov, almost(T[3], R[1], E), R[0] > T[0] - E, R[2] < T[2] + E)
    if side == LOC.SOUTH:
        return sand(nov, almost(T[1], R[3], E), R[0] > T[0] - E, R[2] < T[2] + E)
    if side == LOC.EAST:
        return sand(nov, almost(T[2], R[0], E), R[1] > T[1] - E, R[3] < T[3] + E)
    if side == LOC.WEST:
        return sand(nov, almost(T[0], R[2], E), R[1] > T[1] - E, R[3] < T[3] + E)
    raise ValueError(side)


SIDES = [LOC.NORTH, LOC.SOUTH, LOC.EAST, LOC.WEST]


def spec_location(t, r, E, EA):
    """The function computed by find_location, as one term (an Int: index into StogLocation).  The facing side is
    the first of N, S, E, W whose lines coincide; the extent test is made for that side only."""
    T, R = box(t), box(r)
    i = lambda m: IDX[m]  # noqa
    ns_ext = sand(R[0] > T[0] - E, R[2] < T[2] + E)
    ew_ext = sand(R[1] > T[1] - E, R[3] < T[3] + E)
    side = sif(almost(T[3], R[1], E), sif(ns_ext, i(LOC.NORTH), NOPOLY),
               sif(almost(T[1], R[3], E), sif(ns_ext, i(LOC.SOUTH), NOPOLY),
                   sif(almost(T[2], R[0], E), sif(ew_ext, i(LOC.EAST), NOPOLY),
                       sif(almost(T[0], R[2], E), sif(ew_ext, i(LOC.WEST), NOPOLY), NOPOLY))))
    return sif(ovl(t, r) > EA, NOPOLY, side)


def loc_idx(v):
    """index of a location value (concrete Enum member or SymEnum)"""
    if isinstance(v, SymEnum):
        return SymInt(v.t)
    return IDX[v]


@contract(P, functions=["frame.geometry.geometry.Rectangle.find_location", "frame.utils.utils.almost_eq"])
def find_location(S):
    E, EA = set_eps(S)
    t, r = mk_rect(S, "t"), mk_rect(S, "r")
    out = S.call(t.find_location, r)
    S.ensure("find_location.no_raise", out.ok)
    if not out.ok:
        return
    got = out.value
    S.ensure("find_location.equals_spec_term", seq(IDX[got], spec_location(t, r, E, EA)))
    # soundness: a reported side is really abutted
    if got in SIDES:
        S.ensure("find_location.sound", abuts(t, r, got, E, EA))
    S.ensure("find_location.never_trunk", got != LOC.TRUNK)
    # completeness (for rectangles that are not slivers w.r.t. the tolerance, where 'which side' is unambiguous)
    nondeg = sand(t.shape.w > 2 * E, t.shape.h > 2 * E, r.shape.w > 2 * E, r.shape.h > 2 * E)
    some = sor(*[abuts(t, r, s, E, EA) for s in SIDES])
    S.ensure("find_location.complete", simplies(sand(nondeg, some), got != LOC.NO_POLYGON))
    for s in SIDES:
        S.ensure("find_location.side_is_the_abutted_one", simplies(sand(nondeg, abuts(t, r, s, E, EA)), got == s))
    S.ensure("find_location.arguments_untouched", t.location == LOC.NO_POLYGON and r.location == LOC.NO_POLYGON)


@contract(P, canary=True)
def canary_everything_is_north(S):
    E, EA = set_eps(S)
    t, r = mk_rect(S, "t"), mk_rect(S, "r")
    out = S.call(t.find_location, r)
    S.ensure("canary.always_north", out.ok and out.value == LOC.NORTH)


def _stub_find_location(S, E, EA):
    """Contract stub: find_location replaced by its (separately discharged) spec term."""
    def stub(self, r):
        return SymEnum(LOC, symx.term(spec_location(self, r, E, EA)))
    return stub


def _create_stog_program(S, n):
    E, EA = set_eps(S)
    rects = [mk_rect(S, f"r{i}") for i in range(n)]
    for r in rects:
        r.location = LOC.TRUNK          # adversarial stale roles from an earlier recognition
    snap = [(r, r.center, r.shape, r.center.x, r.center.y, r.shape.w, r.shape.h) for r in rects]
    S.patch(Rectangle, "find_location", _stub_find_location(S, E, EA))
    L = list(rects)
    out = S.call(geo.create_stog, L)
    S.ensure("create_stog.no_raise", out.ok)
    if not out.ok:
        return
    res = out.value
    S.ensure("create_stog.returns_bool", isinstance(res, bool))
    S.ensure("create_stog.permutation_of_the_same_objects",
             len(L) == n and sorted(map(id, L)) == sorted(map(id, rects)))
    S.ensure("create_stog.rectangles_not_altered",
             sand(*[sand(r.center is c and r.shape is sh, seq(r.center.x, x), seq(r.center.y, y), seq(r.shape.w, w), seq(r.shape.h, h))
                    for r, c, sh, x, y, w, h in snap]))
    if n == 1:
        S.ensure("create_stog.single_rectangle_is_a_trunk", res is True and L[0].location == LOC.TRUNK)
        return

    def valid(i):
        return sand(*[snot(seq(spec_location(rects[i], rects[j], E, EA), NOPOLY)) for j in range(n) if j != i])
    exists = sor(*[valid(i) for i in range(n)])
    S.ensure("create_stog.true_iff_some_rectangle_can_be_trunk", siff(res, exists))
    if res:
        t = L[0]
        i0 = next(i for i in range(n) if rects[i] is t)
        S.ensure("create_stog.first_is_a_valid_trunk", sand(t.location == LOC.TRUNK, valid(i0)))
        S.ensure("create_stog.others_carry_the_side_they_abut",
                 sand(*[sand(seq(loc_idx(L[k].location), spec_location(t, L[k], E, EA)),
                             snot(seq(loc_idx(L[k].location), NOPOLY)),
                             snot(seq(loc_idx(L[k].location), IDX[LOC.TRUNK]))) for k in range(1, n)]))
    else:
        S.ensure("create_stog.no_roles_when_not_recognised",
                 sand(*[seq(loc_idx(r.location), NOPOLY) for r in L]))


@contract(P, functions=["frame.geometry.geometry.create_stog"], scope="bounded: lists of <= 2 rectangles (all values symbolic)",
          params=[dict(n=1), dict(n=2)])
def create_stog_small(S, n):
    _create_stog_program(S, n)


@contract(P, functions=["frame.geometry.geometry.create_stog"], scope="bounded: lists of 3 rectangles (all values symbolic)",
          shards=4, shard_depth=3, budget_s=900)
def create_stog_3(S):
    _create_stog_program(S, 3)


@contract(P, tier="thorough", functions=["frame.geometry.geometry.create_stog"],
          scope="bounded: lists of 4 rectangles (all values symbolic)", shards=16, shard_depth=5, budget_s=3000)
def create_stog_4(S):
    _create_stog_program(S, 4)


@contract(P, functions=["frame.geometry.geometry.create_stog"])
def create_stog_rejects_empty(S):
    out = S.call(geo.create_stog, [])
    S.ensure("create_stog.rejects_empty_list", out.raised(AssertionError))
