"""C06 -- single-trunk orthogon recognition (frame/geometry/geometry.py: Rectangle.find_location, create_stog;
frame/netlist/module.py: Module.create_stog / has_stog)."""
import z3

from vf.core import contract
from vf.symx import SymEnum, SymInt, enum_term
from vf.specs import box, ovl, almost
from .common import *  # noqa

P = "C06"
LOC = Rectangle.StogLocation
IDX = {m: i for i, m in enumerate(LOC)}
NOPOLY = IDX[LOC.NO_POLYGON]


def abuts(t, r, side, E, EA):
    """Property-level predicate: r abuts side `side` of t: it does not overlap t, the facing sides coincide (within the
    distance tolerance) and r's extent along that side lies within t's extent (within the tolerance)."""
    T, R = box(t), box(r)
    nov = ovl(t, r) <= EA
    if side == LOC.NORTH:
        return sand(nov, almost(T[3], R[1], E), R[0] > T[0] - E, R[2] < T[2] + E)
    if side == LOC.SOUTH:
        return sand(nov, almost(T[1], R[3], E), R[0] > T[0] - E, R[2] < T[2] + E)
    if side == LOC.EAST:
        return sand(nov, almost(T[2], R[0], E), R[1] > T[1] - E, R[3] < T[3] + E)
    if side == LOC.WEST:
        return sand(nov, almost(T[0], R[2], E), R[1] > T[1] - E, R[3] < T[3] + E)
    raise ValueError(side)


SIDES = [LOC.NORTH, LOC.SOUTH, LOC.EAST, LOC.WEST]


def spec_location(t, r, E, EA):
    """The function computed by find_location, as one term (an Int: index into StogLocation).  The facing side is
    the first of N, S, E, W whose lines coincide; the extent test is made for that side only."""
    T, R = box(t), box(r)
    i = lambda m: IDX[m]  # noqa
    ns_ext = sand(R[0] > T[0] - E, R[2] < T[2] + E)
    ew_ext = sand(R[1] > T[1] - E, R[3] < T[3] + E)
    side = sif(almost(T[3], R[1], E), sif(ns_ext, i(LOC.NORTH), NOPOLY),
               sif(almost(T[1], R[3], E), sif(ns_ext, i(LOC.SOUTH), NOPOLY),
                   sif(almost(T[2], R[0], E), sif(ew_ext, i(LOC.EAST), NOPOLY),
                       sif(almost(T[0], R[2], E), sif(ew_ext, i(LOC.WEST), NOPOLY), NOPOLY))))
    return sif(ovl(t, r) > EA, NOPOLY, side)


def loc_idx(v):
    """index of a location value (concrete Enum member or SymEnum)"""
    if isinstance(v, SymEnum):
        return SymInt(v.t)
    return IDX[v]


@contract(P, functions=["frame.geometry.geometry.Rectangle.find_location", "frame.utils.utils.almost_eq"])
def find_location(S):
    E, EA = set_eps(S)
    t, r = mk_rect(S, "t"), mk_rect(S, "r")
    out = S.call(t.find_location, r)
    S.ensure("find_location.no_raise", out.ok)
    if not out.ok:
        return
    got = out.value
    S.ensure("find_location.equals_spec_term", seq(IDX[got], spec_location(t, r, E, EA)))
    # soundness: a reported side is really abutted
    if got in SIDES:
        S.ensure("find_location.sound", abuts(t, r, got, E, EA))
    S.ensure("find_location.never_trunk", got != LOC.TRUNK)
    # completeness (for rectangles that are not slivers w.r.t. the tolerance, where 'which side' is unambiguous)
    nondeg = sand(t.shape.w > 2 * E, t.shape.h > 2 * E, r.shape.w > 2 * E, r.shape.h > 2 * E)
    some = sor(*[abuts(t, r, s, E, EA) for s in SIDES])
    S.ensure("find_location.complete", simplies(sand(nondeg, some), got != LOC.NO_POLYGON))
    for s in SIDES:
        S.ensure("find_location.side_is_the_abutted_one", simplies(sand(nondeg, abuts(t, r, s, E, EA)), got == s))
    S.ensure("find_location.arguments_untouched", t.location == LOC.NO_POLYGON and r.location == LOC.NO_POLYGON)


@contract(P, canary=True)
def canary_everything_is_north(S):
    E, EA = set_eps(S)
    t, r = mk_rect(S, "t"), mk_rect(S, "r")
    out = S.call(t.find_location, r)
    S.ensure("canary.always_north", out.ok and out.value == LOC.NORTH)


def _stub_find_location(S, E, EA):
    """Contract stub: find_location replaced by its (separately discharged) spec term."""
    def stub(self, r):
        return SymEnum(LOC, symx.term(spec_location(self, r, E, EA)))
    return stub


def _create_stog_program(S, n, moved=False):
    E, EA = set_eps(S)
    rects = [mk_rect(S, f"r{i}") for i in range(n)]
    if moved:
        # composition (added after seed C06-6, a bounding box cached at first use): the rectangles have been used by an earlier
        # recognition and are then moved / resized IN PLACE through their mutable Point / Shape objects, as recenter_rectangles and the
        # mirroring of flippable modules do; the recognition below must see the new geometry
        if S.mode == "sym":
            S.patch(Rectangle, "find_location", _stub_find_location(S, E, EA))
        S.call(geo.create_stog, list(rects))
        for i, r in enumerate(rects):
            r.center.x = r.center.x + S.real(f"mv{i}x")
            r.center.y = r.center.y + S.real(f"mv{i}y")
            r.shape.w = r.shape.w + S.real(f"gr{i}w", nonneg=True)
    for r in rects:
        r.location = LOC.TRUNK          # adversarial stale roles from an earlier recognition
    snap = [(r, r.center, r.shape, r.center.x, r.center.y, r.shape.w, r.shape.h) for r in rects]
    if S.mode == "sym":
        S.patch(Rectangle, "find_location", _stub_find_location(S, E, EA))
    L = list(rects)
    out = S.call(geo.create_stog, L)
    S.ensure("create_stog.no_raise", out.ok)
    if not out.ok:
        return
    res = out.value
    S.ensure("create_stog.returns_bool", isinstance(res, bool))
    S.ensure("create_stog.permutation_of_the_same_objects",
             len(L) == n and sorted(map(id, L)) == sorted(map(id, rects)))
    S.ensure("create_stog.rectangles_not_altered",
             sand(*[sand(r.center is c and r.shape is sh, seq(r.center.x, x), seq(r.center.y, y), seq(r.shape.w, w), seq(r.shape.h, h))
                    for r, c, sh, x, y, w, h in snap]))
    if n == 1:
        S.ensure("create_stog.single_rectangle_is_a_trunk", res is True and L[0].location == LOC.TRUNK)
        return

    def valid(i):
        return sand(*[snot(seq(spec_location(rects[i], rects[j], E, EA), NOPOLY)) for j in range(n) if j != i])
    exists = sor(*[valid(i) for i in range(n)])
    S.ensure("create_stog.true_iff_some_rectangle_can_be_trunk", siff(res, exists))
    if res:
        t = L[0]
        i0 = next(i for i in range(n) if rects[i] is t)
        S.ensure("create_stog.first_is_a_valid_trunk", sand(t.location == LOC.TRUNK, valid(i0)))
        S.ensure("create_stog.others_carry_the_side_they_abut",
                 sand(*[sand(seq(loc_idx(L[k].location), spec_location(t, L[k], E, EA)),
                             snot(seq(loc_idx(L[k].location), NOPOLY)),
                             snot(seq(loc_idx(L[k].location), IDX[LOC.TRUNK]))) for k in range(1, n)]))
    else:
        S.ensure("create_stog.no_roles_when_not_recognised",
                 sand(*[seq(loc_idx(r.location), NOPOLY) for r in L]))


@contract(P, functions=["frame.geometry.geometry.create_stog"], scope="bounded: lists of <= 2 rectangles (all values symbolic)",
          params=[dict(n=1), dict(n=2)])
def create_stog_small(S, n):
    _create_stog_program(S, n)


@contract(P, functions=["frame.geometry.geometry.create_stog"], scope="bounded: lists of 3 rectangles (all values symbolic)",
          shards=4, shard_depth=3, budget_s=900)
def create_stog_3(S):
    _create_stog_program(S, 3)


@contract(P, functions=["frame.geometry.geometry.create_stog", "frame.geometry.geometry.Rectangle.find_location"], budget_s=900, shards=4, shard_depth=3,
          scope="bounded: 2 rectangles recognised once, then moved / widened in place by arbitrary amounts, then recognised again (all values symbolic)")
def recognition_follows_inplace_moves(S):
    _create_stog_program(S, 2, moved=True)


@contract(P, tier="thorough", functions=["frame.geometry.geometry.create_stog"],
          scope="bounded: lists of 4 rectangles (all values symbolic)", shards=16, shard_depth=5, budget_s=3000)
def create_stog_4(S):
    _create_stog_program(S, 4)


@contract(P, functions=["frame.geometry.geometry.create_stog"])
def create_stog_rejects_empty(S):
    out = S.call(geo.create_stog, [])
    S.ensure("create_stog.rejects_empty_list", out.raised(AssertionError))


# ---- bounded leg: the same contract program run concretely on LARGER lists (the symbolic runs stop at 3 / 4 rectangles) ----------

def _random_list(rng, k):
    """k rectangles on a half-integer grid: a single-trunk orthogon (several branches per side, flush corners), possibly
    spoilt by one near miss (gap, overhang, overlap with the trunk), possibly with a repeated rectangle, in random order"""
    h = lambda a, b: rng.randint(2 * a, 2 * b) / 2            # noqa
    x0, y0 = h(-6, 6), h(-6, 6)
    W, H = h(2, 8), h(2, 8)
    x1, y1 = x0 + W, y0 + H
    rects = [(x0, y0, x1, y1)]
    while len(rects) < k:
        side = rng.choice("NSEW")
        d = h(1, 5) if rng.random() < 0.8 else h(6, 14)            # some branches are larger than the trunk
        if side in "NS":
            a = rng.choice([x0, h(0, 2 * int(W)) / 2 + x0]); a = min(a, x1 - 0.5)
            b = rng.choice([x1, a + 0.5 + rng.randint(0, max(0, int(2 * (x1 - a - 0.5)))) / 2])
            rects.append((a, y1, b, y1 + d) if side == "N" else (a, y0 - d, b, y0))
        else:
            a = rng.choice([y0, h(0, 2 * int(H)) / 2 + y0]); a = min(a, y1 - 0.5)
            b = rng.choice([y1, a + 0.5 + rng.randint(0, max(0, int(2 * (y1 - a - 0.5)))) / 2])
            rects.append((x1, a, x1 + d, b) if side == "E" else (x0 - d, a, x0, b))
    kind = rng.choice(["valid", "valid", "gap", "overhang", "overlap", "repeat", "junk", "small_gap", "small_overhang"])
    if kind != "valid" and k > 1:
        i = rng.randrange(1, k)
        a0, b0, a1, b1 = rects[i]
        g = 0.5 if kind in ("gap", "overhang") else 2.0 ** -7         # a small miss is far above the tolerance (1e-6) but tiny next to far coordinates
        if kind in ("gap", "small_gap"):
            dx, dy = (0, g) if b0 >= y1 else (0, -g) if b1 <= y0 else (g, 0) if a0 >= x1 else (-g, 0)
            rects[i] = (a0 + dx, b0 + dy, a1 + dx, b1 + dy)
        elif kind in ("overhang", "small_overhang"):
            rects[i] = (a0 - g, b0, a1, b1) if (b0 >= y1 or b1 <= y0) else (a0, b0 - g, a1, b1)
        elif kind == "overlap":
            dx, dy = (0, -0.5) if b0 >= y1 else (0, 0.5) if b1 <= y0 else (-0.5, 0) if a0 >= x1 else (0.5, 0)
            rects[i] = (a0 + dx, b0 + dy, a1 + dx, b1 + dy)
        elif kind == "repeat":
            rects[i] = rects[rng.randrange(0, k)]
        elif kind == "junk":
            rects[i] = (h(-9, 9), h(-9, 9), 0, 0)
            rects[i] = (rects[i][0], rects[i][1], rects[i][0] + h(1, 4), rects[i][1] + h(1, 4))
    rng.shuffle(rects)
    return kind, rects


@contract(P, kind="enum", functions=["frame.geometry.geometry.create_stog", "frame.geometry.geometry.Rectangle.find_location"],
          scope="bounded: the contract program of create_stog run on concrete lists of 4-8 rectangles (real find_location), 16 chunks",
          params=[dict(chunk=i) for i in range(8)])
def create_stog_larger_lists(chunk, replay=None):
    import os
    import random
    from functools import partial
    tier = os.environ.get("VERIF_TIER", "quick")
    rng = random.Random(600 + chunk + 100 * int(os.environ.get("VERIF_SEED", "0") or 0))
    n_cases = 150 if tier != "thorough" else 3000
    failures, evals, kinds, samples, recognised = [], 0, {}, [], 0
    for it in range(n_cases):
        if replay:
            k, rects, kind = replay["k"], [tuple(r) for r in replay["rects"]], replay.get("kind")
        else:
            k = rng.choice([1, 1, 2, 3]) if rng.random() < 0.15 else rng.randint(4, 8)   # also the smallest lists through the module-level entry points (after seed C06-12)
            kind, rects = _random_list(rng, k)
        values = {"E": 1e-6, "EA": 1e-9}
        far = (replay or {}).get("far", None)
        if far is None:
            far = rng.choice([0.0, 0.0, 0.0, 2.0 ** 20, 2.0 ** 23]) if not replay else 0.0     # origins far from zero (added after seed C06-7)
        rects = [(a0 + far, b0 + far, a1 + far, b1 + far) for (a0, b0, a1, b1) in rects]
        for i, (a0, b0, a1, b1) in enumerate(rects):
            values.update({f"r{i}x": (a0 + a1) / 2, f"r{i}y": (b0 + b1) / 2, f"r{i}w": a1 - a0, f"r{i}h": b1 - b0})
        mv = bool(replay.get("moved")) if replay else (rng.random() < 0.4)
        if mv:      # the list is first recognised somewhere else, then every rectangle is moved in place to its final position
            for i in range(k):
                dx, dy = (replay or {}).get("shift", {}).get(str(i), None) or (rng.choice([0.0, 1.5, -2.0]), rng.choice([0.0, 0.5, -1.0]))
                values.update({f"mv{i}x": dx, f"mv{i}y": dy, f"gr{i}w": 0.0})
                values[f"r{i}x"] -= dx
                values[f"r{i}y"] -= dy
        cs = symx.run_concrete(partial(_create_stog_program, n=k, moved=mv), values)
        evals += 1
        kinds[kind] = kinds.get(kind, 0) + 1
        recognised += "create_stog.first_is_a_valid_trunk" in cs.passed
        # the same list through the module-level entry points (added after seed C06-8: Module.create_stog worked on a sorted copy)
        try:
            from frame.netlist.module import Module
            Rectangle.undefine_epsilon()
            Rectangle.set_epsilon(1e-6, 1e-9)
            mrects = [Rectangle(center=Point((a0 + a1) / 2, (b0 + b1) / 2), shape=Shape(a1 - a0, b1 - b0)) for (a0, b0, a1, b1) in rects]
            expect = "create_stog.first_is_a_valid_trunk" in cs.passed or "create_stog.single_rectangle_is_a_trunk" in cs.passed
            mod = Module("M", area=1.0)
            for r in mrects:
                mod.add_rectangle(r)
            got = mod.create_stog()
            if got != expect:
                cs.failed.append("module.create_stog_agrees_with_the_recognition_of_its_rectangles")
            elif got and not (mod.has_stog and mod.rectangles[0].location == LOC.TRUNK and
                              all(x.location in SIDES for x in mod.rectangles[1:]) and sorted(map(id, mod.rectangles)) == sorted(map(id, mrects))):
                cs.failed.append("module.trunk_listed_first_and_has_stog_when_recognised")
            elif not got and (mod.has_stog or any(x.location != LOC.NO_POLYGON for x in mod.rectangles)):
                cs.failed.append("module.no_roles_and_no_stog_when_not_recognised")
        except Exception as e:  # noqa
            cs.failed.append(f"module.entry_points_do_not_fail ({type(e).__name__}: {e})")
        finally:
            Rectangle.undefine_epsilon()
        for cl in cs.failed:
            failures.append(dict(clause=cl, k=k, rects=[list((r[0] - far, r[1] - far, r[2] - far, r[3] - far)) for r in rects], far=far, kind=kind, moved=mv,
                                 shift={str(i): [values.get(f"mv{i}x", 0.0), values.get(f"mv{i}y", 0.0)] for i in range(k)} if mv else {}))
        if not samples:
            samples.append(dict(k=k, kind=kind, rects=[list(r) for r in rects]))
        if len(failures) >= 4 or replay:
            break
    return dict(evaluations=evals, distinct_nontrivial=evals, exhaustive=False, failures=failures[:4],
                rule="lists of 4-8 rectangles on a half-integer grid: a trunk with branches on all four sides (several per side, flush corners, branches "
                     "larger than the trunk), spoilt with probability 4/7 by one near miss (gap, overhang, overlap with the trunk), a repeated rectangle or "
                     f"an unrelated one, shuffled; every clause of the create_stog contract evaluated with the real find_location; kinds: {kinds}; "
                     f"recognised as orthogons: {recognised}", samples=samples, bound=f"{n_cases} lists per chunk")
