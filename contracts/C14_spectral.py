"""C14 -- spectral placement keeps every module's disc inside the die (tools/spectral/spectral.py, spectral_algorithm.py).

What is decided deductively (mathematical reals, all values):
  * normalize: fixed entries untouched, one common non-negative factor, EVERY movable entry ends inside its span (an entry
    left out of the minimum has |x| <= t * span while every ratio that enters the minimum is below 1 / t: this needs the
    threshold to be relative to the span, which it is since fix 400af20), the limiting entry reaches its span; ValueError
    only when every movable entry is negligible;
  * orthogonalize / calculate_centroids / wirelength / abs_norm_dot_product against their definitions (fixed entries kept);
  * spectral_layout_die with its power-iteration loop CUT (vf.loopcut.one_iteration_of_nested_while): base case and
    inductive step of the invariant  "fixed entries are the shifted initial coordinates; every movable entry is within its
    span", for 1-D and 2-D dies, random start values arbitrary;
  * Spectral._build_graph (clique model, masses, fixed flags, centres) and Spectral.spectral_layout against the contract
    of spectral_layout_die (callee stubbed by that contract): discs inside the die, fixed modules untouched, hard modules
    moved rigidly, areas and nets unchanged.
What is NOT decided deductively and is left to the bounded leg: that the run does not stop on degenerate arithmetic (the
contracts allow ZeroDivisionError / ValueError in degenerate states), rounding, the scale of the die."""
import copy
import math
import os
import random
import types

from vf import core, symx, loopcut
from vf.core import contract
from vf.symx import sle
from .netlist_common import *  # noqa
import tools.spectral.spectral_algorithm as sa
import tools.spectral.spectral as sp
from tools.spectral.spectral_types import AdjEdge

core.shim(sa, sp)
P = "C14"
A = "tools.spectral.spectral_algorithm."
SPM = "tools.spectral.spectral.Spectral."
NEGL = 1e-6          # the contract's own notion of "negligible": |x| <= NEGL * span (the code uses 1e-9 * span)


def sabs(v):
    return sif(v >= 0, v, -v)


# ---- leaf contracts --------------------------------------------------------------------------------------------------------

def vec(S, p, n, **kw):
    return [S.real(f"{p}{i}", **kw) for i in range(n)]


@contract(P, functions=[A + "normalize"], params=[dict(n=n) for n in (1, 2, 3)], budget_s=600,
          scope="vectors of <= 3 entries, all values, every fixed pattern")
def normalize_scales_into_the_spans(S, n):
    normalize_post(S, n)


@contract(P, tier="thorough", functions=[A + "normalize"], params=[dict(n=4)], budget_s=1500, shards=8, shard_depth=4,
          scope="vectors of 4 entries, all values, every fixed pattern")
def normalize_scales_into_the_spans_4(S, n):
    normalize_post(S, n)


def normalize_post(S, n):
    x = vec(S, "x", n)
    span = vec(S, "s", n, nonneg=True)
    fixed = [S.bool(f"f{i}") for i in range(n)]
    x0 = list(x)
    out = S.call(sa.normalize, x, span, fixed)
    mov = [i for i in range(n) if not fixed[i]]
    negl = {i: sabs(x0[i]) <= NEGL * span[i] for i in mov}
    S.ensure("normalize.fails_only_when_every_movable_entry_is_negligible",
             sor(out.ok, sand(out.raised(ValueError), *[negl[i] for i in mov])))
    if not out.ok:
        return
    S.ensure("normalize.in_place_and_same_length", out.value is None and len(x) == n)
    S.ensure("normalize.fixed_entries_untouched", sand(*[seq(x[i], x0[i]) for i in range(n) if fixed[i]]))
    # with a threshold RELATIVE to the span an entry left out of the minimum has |x| <= t * span while the factor is below 1 / t
    S.ensure("normalize.every_movable_entry_ends_inside_its_span", sand(*[sle(sabs(x[i]), span[i]) for i in mov]))
    S.ensure("normalize.one_common_nonnegative_factor",
             sand(*[seq(x[i] * x0[j], x[j] * x0[i]) for i in mov for j in mov if i < j], *[x[i] * x0[i] >= 0 for i in mov],
                  *[simplies(seq(x0[i], 0), seq(x[i], 0)) for i in mov]))
    S.ensure("normalize.some_entry_reaches_its_span", sor(*[sand(seq(sabs(x[i]), span[i]), snot(seq(x0[i], 0))) for i in mov]))


@contract(P, functions=[A + "orthogonalize", A + "abs_norm_dot_product"], params=[dict(n=3, dim=1), dict(n=3, dim=2)], budget_s=900, vc_timeout_s=160,
          scope="3 nodes, all values, every fixed pattern")
def orthogonalize_is_exact_and_keeps_fixed_entries(S, n, dim):
    coord = [[1.0] * n] + [vec(S, f"c{d}_", n) for d in range(1, dim + 1)]
    fixed = [S.bool(f"f{i}") for i in range(n)]
    mass = [0 if fixed[i] else S.real(f"m{i}", nonneg=True) for i in range(n)]
    before = [list(r) for r in coord]
    out = S.call(sa.orthogonalize, coord, mass, dim, fixed)
    S.ensure("orthogonalize.no_assertion_failure_over_the_reals", snot(out.raised(AssertionError)))
    S.ensure("orthogonalize.fails_only_by_a_zero_division", sor(out.ok, out.raised(ZeroDivisionError)))
    if not out.ok:
        return
    S.ensure("orthogonalize.other_dimensions_untouched", sand(*[seq(coord[k][i], before[k][i]) for k in range(dim) for i in range(n)]))
    S.ensure("orthogonalize.fixed_entries_untouched", sand(*[seq(coord[dim][i], before[dim][i]) for i in range(n) if fixed[i]]))
    k = dim - 1      # orthogonal (mass-weighted, movable nodes) to the dimension handled last
    S.ensure("orthogonalize.result_is_orthogonal_to_the_last_dimension", seq(sum(mass[i] * coord[dim][i] * coord[k][i] for i in range(n)), 0))


@contract(P, functions=[A + "calculate_centroids"], params=[dict(topo=t) for t in ("path", "triangle", "star4")])
def centroids_are_the_half_step(S, topo):
    adj, w, n = graph(S, topo)
    c = vec(S, "c", n)
    deg = [sum(e.weight for e in adj[i]) for i in range(n)]
    out = S.call(sa.calculate_centroids, adj, c, deg)
    S.ensure("centroids.no_raise", out.ok)
    if out.ok:
        S.ensure("centroids.half_way_to_the_weighted_mean_of_the_neighbours",
                 len(out.value) == n and sand(*[seq(2 * out.value[i] * deg[i], c[i] * deg[i] + sum(e.weight * c[e.node] for e in adj[i])) for i in range(n)]))


@contract(P, functions=[A + "wirelength"], params=[dict(topo=t) for t in ("path", "triangle")])
def wirelength_is_half_the_weighted_manhattan_sum(S, topo):
    adj, w, n = graph(S, topo)
    c = [vec(S, "x", n), vec(S, "y", n)]
    out = S.call(sa.wirelength, adj, c)
    S.ensure("wirelength.no_raise", out.ok)
    if out.ok:
        exp = sum(wt * (sabs(c[0][a] - c[0][b]) + sabs(c[1][a] - c[1][b])) for (a, b), wt in w.items())
        S.ensure("wirelength.value", seq(out.value, exp))


def graph(S, topo):
    """adjacency lists (symbolic positive weights) of small connected graphs; every node has an edge"""
    edges = {"path": [(0, 1), (1, 2)], "triangle": [(0, 1), (1, 2), (0, 2)], "star4": [(0, 1), (0, 2), (0, 3)], "path4": [(0, 1), (1, 2), (2, 3)]}[topo]
    n = 1 + max(max(e) for e in edges)
    adj = [[] for _ in range(n)]
    w = {}
    for (a, b) in edges:
        wt = S.real(f"w{a}{b}", pos=True)
        w[(a, b)] = wt
        adj[a].append(AdjEdge(b, wt))
        adj[b].append(AdjEdge(a, wt))
    return adj, w, n


# ---- spectral_layout_die with its power iteration cut ----------------------------------------------------------------------

class Ghost:
    """ghost state: the vector handed to the last normalize call of every list object (identity keyed)"""

    def __init__(self):
        self.pre = {}
        self.keep = []

    def wrap(self, S, real_normalize):
        """In symbolic runs normalize is replaced by its CONTRACT (discharged on every run by normalize_scales_into_the_spans
        on the real function): movable entries become arbitrary values inside their span, fixed entries are untouched, ValueError possible only when every movable entry is negligible.  (The
        common-factor clause of the contract is not needed by the callers and is not assumed.)  Concrete runs call the
        real function."""
        def normalize(x, max_span, is_fixed):
            x0 = list(x)
            self.pre[id(x)] = x0
            self.keep.append(x)
            if S.mode != "sym":
                return real_normalize(x, max_span, is_fixed)
            mov = [i for i in range(len(x)) if not is_fixed[i]]
            if not mov or symx.SymBool(symx.term(sand(*[sabs(x0[i]) <= NEGL * max_span[i] for i in mov]))):
                if not mov or symx.SymBool(symx.z3.Bool(f"normalize_fails!{len(self.keep)}")):
                    raise symx.modelled(ValueError("min() iterable argument is empty"))
            for i in mov:
                y = S.fresh_real("norm")
                S.assume(sabs(y) <= max_span[i])
                x[i] = y
            return None
        return normalize


def die_instance(S, n, fixed, dims, init="any"):
    size = [S.real("W", pos=True), S.real("H", pos=True)][:dims]
    mass = vec(S, "m", n, nonneg=True)
    pi = sa.math.pi
    radius = [S.sqrt(mass[i] / pi) for i in range(n)]
    # the discs of the movable modules fit in the die
    for i in range(n):
        if not fixed[i]:
            for d in range(dims):
                S.assume(radius[i] * 2 <= size[d])
    # init: "random" = every movable node starts at a random place (negative initial coordinate), "given" = every node has a
    # known (non-negative) initial coordinate, "any" = each coordinate individually
    initial = [[-1.0 if (init == "random" and not fixed[i]) else S.real(f"i{d}_{i}") for i in range(n)] for d in range(dims)]
    for i in range(n):
        if fixed[i] or init == "given":
            for d in range(dims):
                S.assume(initial[d][i] >= 0)          # a fixed node has known (non-negative) coordinates
    return size, mass, radius, initial


def inv_row(S, row, span, fixed, pre_row, size_d, initial_row):
    """invariant of one coordinate row: fixed entries = initial - size/2; movable entries within their span"""
    cl = []
    for i in range(len(row)):
        if fixed[i]:
            cl.append(seq(row[i], initial_row[i] - size_d / 2))
        else:
            cl.append(sle(sabs(row[i]), span[i]))
    return sand(*cl)


@contract(P, functions=[A + "spectral_layout_die", A + "normalize", A + "orthogonalize", A + "calculate_centroids", A + "abs_norm_dot_product", A + "wirelength"],
          params=[dict(fixed=f, dims=1, focus=1, init="any") for f in ([0, 0, 0], [1, 0, 0], [0, 1, 1])] +
                 [dict(fixed=f, dims=2, focus=k, init=i) for f in ([0, 0, 0], [0, 1, 0]) for k in (1, 2) for i in ("random", "given")],
          budget_s=400, exact_feas_ms=0, leak_ok=True, shards=4, shard_depth=6, vc_timeout_s=20,
          scope="invariants of both loops of spectral_layout_die: ONE arbitrary iteration of the power iteration from an arbitrary "
                "invariant state, inside ONE chosen iteration (focus) of the loop over the dimensions, the earlier dimensions being "
                "arbitrary rows satisfying the postcondition; 3 nodes on a path graph, all masses / weights / die sizes / initial and "
                "random coordinates")
def layout_die_invariant(S, fixed, dims, focus, init):
    layout_die_body(S, fixed, dims, focus, init)


@contract(P, tier="thorough", functions=[A + "spectral_layout_die"],
          params=[dict(fixed=f, dims=2, focus=k, init="any") for f in ([0, 0, 0], [0, 1, 0], [1, 0, 1]) for k in (1, 2)],
          budget_s=3000, exact_feas_ms=0, leak_ok=True, shards=8, shard_depth=6, vc_timeout_s=60,
          scope="as layout_die_invariant, every initial coordinate individually known or unknown (random start)")
def layout_die_invariant_any_start(S, fixed, dims, focus, init):
    layout_die_body(S, fixed, dims, focus, init)


@contract(P, tier="thorough", functions=[A + "spectral_layout_die"],
          params=[dict(fixed=f, dims=2, focus=k, init=i, topo=t) for (f, t) in (([0, 0, 0, 0], "path4"), ([0, 1, 0, 0], "star4"), ([0, 0, 0], "triangle"))
                  for k in (1, 2) for i in ("random", "given")],
          budget_s=3000, exact_feas_ms=0, leak_ok=True, shards=8, shard_depth=6, vc_timeout_s=60,
          scope="as layout_die_invariant on 4-node graphs (path, star with a fixed leaf) and on the triangle")
def layout_die_invariant_other_graphs(S, fixed, dims, focus, init, topo):
    layout_die_body(S, fixed, dims, focus, init, topo)


def layout_die_body(S, fixed, dims, focus, init, topo="path"):
    fixed = [bool(f) for f in fixed]
    adj, w, n = graph(S, topo)
    assert n == len(fixed)
    size, mass, radius, initial = die_instance(S, n, fixed, dims, init)
    span = [[size[d] / 2 - radius[i] for i in range(n)] for d in range(dims)]
    ghost = Ghost()

    def uniform(a, b):          # contract of the random source: some value in [a, b]
        if S.mode != "sym":
            return random.uniform(a, b)
        v = S.fresh_real("rnd")
        S.assume(sand(v >= a, v <= b))
        return v

    def arbitrary_row(d, entry, tag):
        """a row satisfying the invariant (fixed entries as in `entry`)"""
        row, prow = [], []
        for i in range(n):
            if fixed[i]:
                row.append(entry[i])
                prow.append(entry[i])
            else:
                row.append(S.fresh_real(f"any_{tag}{d}_{i}"))
                prow.append(S.fresh_real(f"any_{tag}pre{d}_{i}"))
        S.assume(inv_row(S, row, span[d - 1], fixed, prow, size[d - 1], initial[d - 1]))
        ghost.pre[id(row)] = prow
        ghost.keep.append(row)
        return row

    earlier = {}

    def havoc(name, old, loc):
        """carried variables are told apart by what they hold, not by their names: the coordinate matrix, numbers"""
        d = loc[dim_var[0]]
        if isinstance(old, list):
            entry = old[d]
            pre = ghost.pre.get(id(entry))
            S.ensure("die.invariant_holds_at_loop_entry", pre is not None and inv_row(S, entry, span[d - 1], fixed, pre, size[d - 1], initial[d - 1]))
            # the rows of the dimensions handled before still hold the shifted initial coordinates of the fixed nodes
            S.ensure("die.fixed_entries_of_every_row_are_the_shifted_initial_coordinates",
                     sand(*[seq(old[k][i], initial[k - 1][i] - size[k - 1] / 2) for k in range(1, len(old)) for i in range(n) if fixed[i]]))
            if S.mode != "sym":
                return old
            new = list(old)
            for k in range(1, d):       # dimensions skipped by the focus: arbitrary rows satisfying the postcondition
                new[k] = arbitrary_row(k, old[k], "done")
                earlier[k] = (new[k], list(new[k]))
            new[d] = arbitrary_row(d, entry, "c")
            return new
        if S.mode != "sym":
            return old
        if isinstance(old, symx.SymInt) or (isinstance(old, int) and not isinstance(old, bool)):
            v = S.fresh_int("any_count")
            S.assume(v >= 0)
            return v
        if isinstance(old, float):
            return S.fresh_real("any_number")
        raise symx.ProxyLeak(f"loop-carried variable {name} of an unexpected kind ({type(old).__name__})")

    def restrict(it):
        return [d for d in it if d == focus] if S.mode == "sym" else it

    # the power iteration is the only while-loop of the function; its carried variables are found on the AST
    code, info = loopcut.one_iteration_of_nested_while(sa.spectral_layout_die, lambda c: True, "auto", restrict_for=lambda it: it.startswith("range("))
    S.ensure("die.the_rewrite_found_the_loop_over_the_dimensions_that_holds_the_power_iteration", len(info["restricted"]) == 1 and len(info["for_targets"]) == 1)
    dim_var = info["for_targets"]
    S.cover("loop-cut: while " + info["condition"])
    cut = loopcut.instantiate(code, sa.spectral_layout_die, havoc, restrict_fn=restrict)
    ns = cut.__globals__
    ns["normalize"] = ghost.wrap(S, sa.normalize)
    # orthogonalize runs as it is, its internal numerical self-check included (over the reals the residual is exactly zero)
    ns["random"] = types.SimpleNamespace(uniform=uniform)
    init_copy = [list(r) for r in initial]
    out = S.call(cut, adj, mass, size, initial, fixed)
    S.ensure("die.no_assertion_failure", snot(out.raised(AssertionError)))
    S.ensure("die.fails_only_by_degenerate_arithmetic", sor(out.ok, out.raised(ZeroDivisionError), out.raised(ValueError)))
    if not out.ok:
        return
    fc, wl, its = out.value
    S.ensure("die.result_shape", len(fc) == dims and all(len(r) == n for r in fc))
    S.ensure("die.arguments_untouched", sand(*[seq(initial[d][i], init_copy[d][i]) for d in range(dims) for i in range(n)]) and len(adj) == n)
    for k, (row, snap) in earlier.items():
        S.ensure("die.rows_of_earlier_dimensions_are_not_touched_again", fc[k - 1] is row and sand(*[seq(row[i], snap[i]) for i in range(n)]))
    for d in range(focus if S.mode == "sym" else dims):
        pre = ghost.pre.get(id(fc[d]))
        S.ensure(f"die.fixed_nodes_keep_their_coordinates_and_movable_ones_are_within_their_span[dim {d}]",
                 pre is not None and inv_row(S, fc[d], span[d], fixed, pre, size[d], initial[d]))


# ---- Spectral (the netlist wrapper): graph construction and placement against the contract of spectral_layout_die ------------

KINDS = [("soft", "soft", "soft"), ("soft", "softc", "hard"), ("soft", "soft", "hard2"), ("softc", "soft", "fixed"), ("soft", "soft", "fterm"),
         ("soft", "term", "fixed")]
# five modules, at least three movable ones with a positive area (with fewer the real power iteration degenerates: the
# concrete cross-check of a path model runs the unmodified callee)
KINDS5 = [("soft", "soft", "soft", "soft", "soft"), ("soft", "softc", "soft", "hard", "term"), ("soft", "soft", "soft", "hard2", "fterm"),
          ("softc", "soft", "soft", "fixed", "fterm"), ("soft", "soft", "soft", "term", "fixed")]


def make_netlist(S, kinds, nets="one"):
    set_eps(S)
    E, EA = set_eps(S)
    stub_find_location(S, E, EA)
    if S.mode == "sym":
        S.patch(modmod, "create_stog", lambda rects: False)
        S.patch(Rectangle, "overlap", lambda self, r: specs.ovl(self, r) > EA)
    mods = {}
    for i, k in enumerate(kinds):
        nm = f"M{i}"
        p = nm.lower()
        if k == "soft":
            mods[nm] = soft_module(S, p, "scalar", False)
        elif k == "softc":
            mods[nm] = soft_module(S, p, "scalar", True)
        elif k == "hard":
            mods[nm] = hard_module(S, p, 1, False)
        elif k == "hard2":
            mods[nm] = hard_module(S, p, 2, False)
        elif k == "fixed":
            mods[nm] = hard_module(S, p, 1, True)
        elif k == "term":
            mods[nm] = terminal_module(S, p, True, False)
        elif k == "fterm":
            mods[nm] = terminal_module(S, p, True, True)
    names = list(mods)
    if nets == "one":
        nl = [names + [S.real("wt", pos=True)]]
    else:
        nl = [[names[0], names[1], S.real("wt0", pos=True)], [names[1], names[2], S.real("wt1", pos=True)]]
    return {"Modules": mods, "Nets": nl}, mods, nl


@contract(P, functions=[SPM + "_build_graph", SPM + "__init__"], params=[dict(kinds=list(k), nets=nt) for k in KINDS[:4] for nt in ("one", "two")] +
          [dict(kinds=list(k), nets="one") for k in KINDS[4:]], budget_s=600,
          scope="3 modules (soft with / without centre, hard with 1-2 rectangles, fixed, terminals), one 3-pin net or two 2-pin nets, all values")
def build_graph_is_the_clique_model(S, kinds, nets):
    tree, mods, nl = make_netlist(S, kinds, nets)
    out = S.call(sp.Spectral, tree)
    if not out.ok:
        S.ensure("graph.fails_only_on_an_invalid_netlist", out.raised(AssertionError) or out.raised(ValueError))
        return
    S.cover("netlist accepted")
    sn = out.value
    n = len(kinds)
    S.ensure("graph.one_node_per_module", len(sn._mass) == n and len(sn._adj) == n and len(sn._fixed_modules) == n and
             len(sn._centers) == 2 and all(len(r) == n for r in sn._centers))
    S.ensure("graph.mass_is_the_module_area", sand(*[seq(sn._mass[i], spec_area(mods[f"M{i}"])) for i in range(n)]))
    S.ensure("graph.fixed_flags", [bool(f) for f in sn._fixed_modules] == [k in ("fixed", "fterm") for k in kinds])
    cl = []
    for i, m in enumerate(sn.modules):
        c = spec_center(mods[f"M{i}"])
        if c is None:
            cl.append(sand(seq(sn._centers[0][i], -1), seq(sn._centers[1][i], -1)))
        else:
            cl.append(sand(seq(sn._centers[0][i], c[0]), seq(sn._centers[1][i], c[1])))
    S.ensure("graph.centres_are_the_module_centres_or_minus_one", sand(*cl))
    # clique model: every pair of pins of a k-pin net of weight w gets an edge of weight 2w/k in both directions
    exp = {}
    for net in nl:
        pins, wt = [int(x[1:]) for x in net[:-1]], net[-1]
        for a in pins:
            for b in pins:
                if a != b:
                    exp.setdefault((a, b), []).append(2 * wt / len(pins))
    got = {}
    for a in range(n):
        for e in sn._adj[a]:
            got.setdefault((a, e.node), []).append(e.weight)
    S.ensure("graph.clique_model_of_every_net", set(got) == set(exp) and all(len(got[k]) == len(exp[k]) for k in exp) and
             sand(*[seq(sum(got[k]), sum(exp[k])) for k in exp]))
    S.ensure("graph.every_module_on_a_net_has_positive_degree", sand(*[sum(e.weight for e in sn._adj[a]) > 0 for a in range(n)]))


def disc_inside(cx, cy, r, W, H):
    return sand(sle(r, cx), sle(cx, W - r), sle(r, cy), sle(cy, H - r))


@contract(P, functions=[SPM + "spectral_layout", "frame.netlist.module.Module.recenter_rectangles"],
          params=[dict(kinds=list(k), nfl=f) for k in KINDS5 for f in (1, 2)] + [dict(kinds=list(k), nfl=0) for k in (KINDS5[1], KINDS5[3], KINDS5[4])],
          budget_s=900, exact_feas_ms=0, vc_timeout_s=40,
          scope="5 modules of every kind, best of 1-2 floorplans or the given centres; spectral_layout_die replaced by its contract "
                "(layout_die_invariant); all values")
def spectral_layout_places_the_discs_inside_the_die(S, kinds, nfl):
    tree, mods, nl = make_netlist(S, kinds, "one")
    out0 = S.call(sp.Spectral, tree)
    if not out0.ok:
        return
    sn = out0.value
    n = len(kinds)
    W, H = S.real("W", pos=True), S.real("H", pos=True)
    pi = sa.math.pi
    movable = [k not in ("fixed", "fterm") for k in kinds]
    radius = [S.sqrt(m.area() / pi) for m in sn.modules]
    for i in range(n):
        if movable[i]:
            S.assume(sand(2 * radius[i] <= W, 2 * radius[i] <= H))          # the discs of the movable modules fit in the die
    if nfl == 0:
        # the given centres are used: a negative coordinate would be read as "unknown"
        for i in range(n):
            if sn.modules[i].center is not None:
                S.assume(sand(sn.modules[i].center.x >= 0, sn.modules[i].center.y >= 0))
    else:
        for i in range(n):
            if not movable[i]:
                S.assume(sand(sn.modules[i].center.x >= 0, sn.modules[i].center.y >= 0))
    calls = []

    def die_contract(adj, mass, size, initial, fixed):
        """the contract of spectral_layout_die established by layout_die_invariant (+ its argument frame)"""
        calls.append(1)
        S.ensure("layout.callee_gets_the_graph_the_masses_the_die_and_the_fixed_flags",
                 adj is sn._adj and mass is sn._mass and len(size) == 2 and sand(seq(size[0], W), seq(size[1], H)) and
                 [bool(f) for f in fixed] == [not mv for mv in movable] and initial is sn._centers)
        S.ensure("layout.callee_precondition_fixed_nodes_have_known_coordinates",
                 sand(*[sand(initial[d][i] >= 0) for d in range(2) for i in range(n) if not movable[i]]))
        if nfl > 0:
            S.ensure("layout.movable_nodes_start_at_random_places", sand(*[initial[d][i] < 0 for d in range(2) for i in range(n) if movable[i]]))
        coord = []
        for d in range(2):
            row = []
            for i in range(n):
                if not movable[i]:
                    row.append(initial[d][i] - size[d] / 2)
                else:
                    y = S.fresh_real(f"pos{d}_{i}")
                    S.assume(sabs(y) <= size[d] / 2 - radius[i])
                    row.append(y)
            coord.append(row)
        return coord, S.fresh_real("wl"), [0, 0]
    if S.mode == "sym":
        S.patch(sp, "spectral_layout_die", die_contract)
    else:
        real_die = sp.spectral_layout_die

        def counted(*a):
            calls.append(1)
            try:
                return real_die(*a)
            except (AssertionError, ZeroDivisionError, ValueError):
                # the obligations below are relative to the callee's contract over the reals; a float-level failure inside
                # the unmodified callee (collapsed or degenerate configuration) makes this concrete run inconclusive
                S.assume(False)
                raise
        S.patch(sp, "spectral_layout_die", counted)
    snap = [(m, m.area(), m.center, [(r, r.center.x, r.center.y, r.shape.w, r.shape.h) for r in m.rectangles], m.is_fixed, m.is_hard) for m in sn.modules]
    edges = [(e, list(e.modules), e.weight) for e in sn.edges]
    from frame.geometry.geometry import Shape
    out = S.call(sn.spectral_layout, Shape(W, H), nfl, False)
    if nfl == 0 and any(m[2] is None for m in snap):
        S.ensure("layout.given_centres_mode_needs_every_centre", out.raised(AssertionError))
        return
    S.ensure("layout.no_raise", out.ok)
    if not out.ok:
        return
    S.ensure("layout.callee_called_once_per_floorplan", len(calls) == max(nfl, 1))
    for i, (m, area, c0, rs, fx, hd) in enumerate(snap):
        nm = kinds[i]
        S.ensure("layout.area_unchanged", seq(m.area(), area))
        S.ensure("layout.same_rectangle_objects_and_shapes", len(m.rectangles) == len(rs) and all(a is b[0] for a, b in zip(m.rectangles, rs)) and
                 sand(*[sand(seq(r.shape.w, w), seq(r.shape.h, h)) for (r, x, y, w, h) in rs]))
        if fx:
            S.ensure("layout.fixed_module_rectangles_not_moved", sand(*[sand(seq(r.center.x, x), seq(r.center.y, y)) for (r, x, y, w, h) in rs]))
            if nm == "fterm":
                S.ensure("layout.fixed_terminal_keeps_its_centre", m.center is not None and sand(seq(m.center.x, c0.x), seq(m.center.y, c0.y)))
            continue
        if hd and rs:
            S.ensure("layout.hard_module_centre_removed", m.center is None)
            r0 = rs[0]
            dx, dy = r0[0].center.x - r0[1], r0[0].center.y - r0[2]
            S.ensure("layout.hard_module_moved_rigidly", sand(*[sand(seq(r.center.x - x, dx), seq(r.center.y - y, dy)) for (r, x, y, w, h) in rs]))
            tot = sum(w * h for (r, x, y, w, h) in rs)
            cx = sum(w * h * r.center.x for (r, x, y, w, h) in rs) / tot
            cy = sum(w * h * r.center.y for (r, x, y, w, h) in rs) / tot
        else:
            S.ensure("layout.movable_module_has_a_centre", m.center is not None)
            if m.center is None:
                continue
            cx, cy = m.center.x, m.center.y
        S.ensure("layout.disc_of_every_movable_module_inside_the_die", disc_inside(cx, cy, radius[i], W, H))
    S.ensure("layout.nets_unchanged", len(sn.edges) == len(edges) and all(a is b[0] for a, b in zip(sn.edges, edges)) and
             all(list(e.modules) == ms and e.weight is wt for (e, ms, wt) in edges))


# ---- bounded leg: the unmodified tool end to end, in doubles ------------------------------------------------------------------

SCALES = [(1.0, 1.0), (10.0, 4.0), (3.0, 8.0), (1e-3, 2e-3), (1e3, 1e3), (1e-5, 3e-5), (1e-7, 1e-7), (3e5, 1e5)]


def _design(rng):
    W, H = rng.choice(SCALES)
    n_mov = rng.randint(4, 7)
    kinds = ["soft"] * 3 + [rng.choice(["soft", "soft", "hard", "hard2"]) for _ in range(n_mov - 3)]
    kinds += rng.sample(["fixed", "fterm", "term", "fixed", "fterm"], rng.randint(0, 2))
    rng.shuffle(kinds)
    total = rng.uniform(0.1, 0.6) * W * H              # area of the movable modules
    shares = [rng.uniform(0.2, 1.0) for _ in kinds]
    ssum = sum(sh for sh, k in zip(shares, kinds) if k in ("soft", "hard", "hard2"))
    mods = {}
    for i, (k, sh) in enumerate(zip(kinds, shares)):
        nm = f"M{i}"
        area = total * sh / ssum
        if k == "soft":
            mods[nm] = {"area": area}
        elif k == "hard":
            ar = rng.uniform(0.5, 2.0)
            w, h = math.sqrt(area * ar), math.sqrt(area / ar)
            mods[nm] = {"hard": True, "rectangles": [[rng.uniform(w / 2, W - w / 2), rng.uniform(h / 2, H - h / 2), w, h]]}
        elif k == "hard2":           # an L: trunk + a branch on its right side
            w, h = math.sqrt(area * 0.75), math.sqrt(area * 0.75)
            bw, bh = area * 0.25 / (h / 2), h / 2
            x, y = rng.uniform(w / 2, max(w / 2, W - w / 2 - bw)), rng.uniform(h / 2, H - h / 2)
            mods[nm] = {"hard": True, "rectangles": [[x, y, w, h], [x + w / 2 + bw / 2, y - h / 4, bw, bh]]}
        elif k == "fixed":
            w, h = rng.uniform(0.05, 0.2) * W, rng.uniform(0.05, 0.2) * H
            mods[nm] = {"fixed": True, "rectangles": [[rng.uniform(w / 2, W - w / 2), rng.uniform(h / 2, H - h / 2), w, h]]}
        elif k == "fterm":
            mods[nm] = {"terminal": True, "fixed": True, "center": [rng.choice([0.0, W, rng.uniform(0, W)]), rng.uniform(0, H)]}
        elif k == "term":
            mods[nm] = {"terminal": True}
    names = list(mods)
    order = names[:]
    rng.shuffle(order)
    nets = [[a, b] for a, b in zip(order, order[1:])]
    for _ in range(rng.randint(0, len(names))):
        nets.append(rng.sample(names, rng.randint(2, min(4, len(names)))) + [rng.choice([1, 2, 5, 0.5])])
    return W, H, kinds, {"Modules": mods, "Nets": nets}


def _radius(m):
    return math.sqrt(m.area() / math.pi)


@contract(P, kind="enum", functions=[SPM + "spectral_layout", SPM + "_build_graph", A + "spectral_layout_die", A + "normalize", A + "orthogonalize",
                                     A + "calculate_centroids", A + "abs_norm_dot_product", A + "wirelength"],
          scope="bounded: random connected netlists (4-7 movable modules with positive area + fixed blocks / terminals), dies from 1e-6 to 3e5 "
                "units, best of 1 or 3 floorplans and given-centres mode, several seeds of the random start",
          params=[dict(chunk=i) for i in range(16)])
def float_leg(chunk, replay=None):
    write_yaml = lambda d: __import__("json").dumps(d, indent=1)  # noqa: E731  input documents are written WITHOUT the library (JSON is a subset of YAML): the harness must not depend on the code under test
    from frame.geometry.geometry import Shape
    tier = os.environ.get("VERIF_TIER", "quick")
    rng = random.Random(1400 + chunk + 100 * int(os.environ.get("VERIF_SEED", "0") or 0))
    n_des = 3 if tier != "thorough" else 40
    failures, evals, samples = [], 0, []
    distinct = set()
    for it in range(n_des):
        if replay:
            W, H, kinds, doc = replay["design"]
        else:
            W, H, kinds, doc = _design(rng)
        text = write_yaml(doc)
        for run in range(1 if replay else 3):
            mode, seed = (replay["mode"], replay["seed"]) if replay else (rng.choice([1, 3, 0]), rng.randint(0, 10 ** 6))
            Rectangle.undefine_epsilon()
            try:
                sn = sp.Spectral(text)
            except AssertionError:
                break
            if mode == 0:           # given-centres mode needs a centre for every module: take them from a first placement
                random.seed(seed + 1)
                try:
                    sn.spectral_layout(Shape(W, H), 1, False)
                except Exception as e:  # noqa
                    failures.append(dict(clause="float.never_fails", design=[W, H, kinds, doc], mode=1, seed=seed + 1, observed=f"{type(e).__name__}: {e}"))
                    continue
                for m in sn.modules:
                    if m.center is None:
                        from frame.geometry.geometry import Point
                        a = sum(r.area for r in m.rectangles)
                        m.center = Point(sum(r.area * r.center.x for r in m.rectangles) / a, sum(r.area * r.center.y for r in m.rectangles) / a)
                sn._build_graph()
            before = [(m.name, m.area(), (m.center.x, m.center.y) if m.center is not None else None,
                       [(r.center.x, r.center.y, r.shape.w, r.shape.h) for r in m.rectangles], m.is_fixed, m.is_hard, m.is_terminal) for m in sn.modules]
            nets_before = [([m.name for m in e.modules], e.weight) for e in sn.edges]
            evals += 1
            distinct.add((text, mode, seed))
            random.seed(seed)
            info = dict(design=[W, H, kinds, doc], mode=mode, seed=seed)
            try:
                sn.spectral_layout(Shape(W, H), mode, False)
            except Exception as e:  # noqa
                failures.append(dict(clause="float.never_fails", observed=f"{type(e).__name__}: {e}", **info))
                continue
            tol = 1e-9 * max(W, H)
            for m, (nm, area, c0, rs, fx, hd, tm) in zip(sn.modules, before):
                now = [(r.center.x, r.center.y, r.shape.w, r.shape.h) for r in m.rectangles]
                if m.name != nm or m.area() != area or [(w, h) for (_, _, w, h) in now] != [(w, h) for (_, _, w, h) in rs]:
                    failures.append(dict(clause="float.areas_and_shapes_unchanged", module=nm, **info))
                if fx:
                    if now != rs:
                        failures.append(dict(clause="float.fixed_module_rectangles_not_moved", module=nm, before=rs, after=now, **info))
                    if tm and (m.center is None or abs(m.center.x - c0[0]) > tol or abs(m.center.y - c0[1]) > tol):
                        failures.append(dict(clause="float.fixed_terminal_keeps_its_centre", module=nm, **info))
                    continue
                if hd and not tm:
                    a = sum(w * h for (_, _, w, h) in now)
                    cx, cy = sum(w * h * x for (x, _, w, h) in now) / a, sum(w * h * y for (_, y, w, h) in now) / a
                    dx, dy = now[0][0] - rs[0][0], now[0][1] - rs[0][1]
                    if any(abs((p[0] - q[0]) - dx) > tol or abs((p[1] - q[1]) - dy) > tol for p, q in zip(now, rs)):
                        failures.append(dict(clause="float.hard_module_moved_rigidly", module=nm, before=rs, after=now, **info))
                else:
                    if m.center is None:
                        failures.append(dict(clause="float.movable_module_has_a_centre", module=nm, **info))
                        continue
                    cx, cy = m.center.x, m.center.y
                r = _radius(m)
                if not (math.isfinite(cx) and math.isfinite(cy) and r - tol <= cx <= W - r + tol and r - tol <= cy <= H - r + tol):
                    failures.append(dict(clause="float.disc_of_every_movable_module_inside_the_die", module=nm, centre=[cx, cy], radius=r, **info))
            if [([m.name for m in e.modules], e.weight) for e in sn.edges] != nets_before:
                failures.append(dict(clause="float.nets_unchanged", **info))
            if mode != 0 and it % 3 == 0:
                # composition: a second placement on the same object (hard modules have lost their centre, movable ones have one now)
                fixed_now = [(m.name, [(r.center.x, r.center.y, r.shape.w, r.shape.h) for r in m.rectangles]) for m in sn.modules if m.is_fixed]
                try:
                    random.seed(seed + 7)
                    sn.spectral_layout(Shape(W, H), 1, False)
                    for m in sn.modules:
                        if m.is_fixed or (m.is_hard and not m.is_terminal):
                            continue
                        r = _radius(m)
                        if m.center is None or not (r - tol <= m.center.x <= W - r + tol and r - tol <= m.center.y <= H - r + tol):
                            failures.append(dict(clause="float.disc_of_every_movable_module_inside_the_die", module=m.name, second_placement=True, **info))
                    if fixed_now != [(m.name, [(r.center.x, r.center.y, r.shape.w, r.shape.h) for r in m.rectangles]) for m in sn.modules if m.is_fixed]:
                        failures.append(dict(clause="float.fixed_module_rectangles_not_moved", second_placement=True, **info))
                except Exception as e:  # noqa
                    failures.append(dict(clause="float.never_fails", observed=f"second placement: {type(e).__name__}: {e}", **info))
            if not samples:
                samples.append(dict(W=W, H=H, kinds=kinds, mode=mode, seed=seed, doc=doc))
        if len(failures) >= 6 or replay:
            break
    Rectangle.undefine_epsilon()
    return dict(evaluations=evals, distinct_nontrivial=len(distinct), exhaustive=False, failures=failures[:6],
                rule="random connected netlists: 4-7 movable modules with positive area (soft, hard rectangles, hard L shapes; total 10-60 % of the "
                     "die) plus up to two of fixed block / fixed terminal / movable terminal; nets = a random spanning path + up to n random "
                     "2-4-pin weighted nets; dies from 1e-6 to 3e5 units; best-of-1, best-of-3 and given-centres mode; each with several seeds of "
                     "the random start, through the unmodified Spectral class in doubles; discs inside the die within 1e-9 die sizes, fixed "
                     "rectangles bit-identical, hard modules translated, areas / shapes / nets unchanged; distinct = (design, mode, seed)",
                samples=samples, bound=f"{n_des} designs x 3 runs per chunk")


OVERFULL = ("Modules: {M0: {area: 0.5}, M1: {area: 0.5}, M2: {area: 0.03}, M3: {area: 0.01}, F: {fixed: true, rectangles: [[0.05, 0.5, 0.1, 0.1]]}}\n"
            "Nets: [[M0, M1, M2, M3, F]]\n")


@contract(P, kind="enum", functions=[SPM + "spectral_layout", A + "orthogonalize"],
          scope="one recorded design (known finding C14-overfull-design-collapses), seeds 0..9")
def overfull_design_collapses(replay=None):
    """Two movable modules of half the die area each (every disc fits on its own, together they cannot) attached to a fixed
    block on the die border: the movable nodes collapse onto one coordinate, the projection in orthogonalize cancels to
    rounding noise and its internal self-check (cosine < 1e-11) stops the run.  Recorded, not repaired (DESIGN 0.4)."""
    from frame.geometry.geometry import Shape
    failures, evals = [], 0
    for seed in ([replay["seed"]] if replay else range(10)):
        Rectangle.undefine_epsilon()
        sn = sp.Spectral(OVERFULL)
        random.seed(seed)
        evals += 1
        try:
            sn.spectral_layout(Shape(1, 1), 1, False)
        except Exception as e:  # noqa
            if not failures:
                failures.append(dict(clause="float.never_fails", design=OVERFULL, die="1x1", seed=seed, observed=f"{type(e).__name__}: {e}"))
    Rectangle.undefine_epsilon()
    return dict(evaluations=evals, distinct_nontrivial=evals, exhaustive=False, failures=failures,
                rule="the recorded over-full design, best of 1 floorplan, seeds 0..9 of the random start", samples=[dict(design=OVERFULL, die="1x1")],
                bound="10 seeds")


def _symmetric_designs():
    """given-centres starts (0 trials) that are symmetric about an axis of the die: the centroid step can put every node on the same coordinate"""
    out = []
    for cols, rows, W, H in [(2, 2, 4.0, 4.0), (2, 3, 4.0, 6.0), (2, 4, 6.0, 8.0), (3, 2, 6.0, 4.0), (2, 2, 10.0, 3.0)]:
        for area in (1.0, 0.49):
            names, mods = [], {}
            for j in range(rows):
                for i in range(cols):
                    nm = f"M{j}_{i}"
                    names.append((nm, i, j))
                    mods[nm] = {"area": area, "center": [W * (2 * i + 1) / (2 * cols), H * (2 * j + 1) / (2 * rows)]}
            for style in ("ring", "rows_and_columns", "every_net_crosses_the_axis"):
                if style == "every_net_crosses_the_axis" and cols != 2:
                    continue        # a middle column would be on no net: outside the property (every module is on some net)
                if style == "ring":
                    order = [n for n, i, j in names if i == 0] + [n for n, i, j in reversed(names) if i == cols - 1] + \
                            [n for n, i, j in names if 0 < i < cols - 1]
                    nets = [[order[k], order[(k + 1) % len(order)]] for k in range(len(order))]
                elif style == "rows_and_columns":
                    nets = [[n for n, i, j in names if j == jj] for jj in range(rows)] + [[n for n, i, j in names if i == ii] for ii in range(cols)]
                else:
                    nets = [[a, b] for a, i, j in names if i == 0 for b, i2, j2 in names if i2 == cols - 1]
                out.append((W, H, {"Modules": mods, "Nets": nets}, f"{cols}x{rows} {style} area {area}"))
    return out


@contract(P, kind="enum", functions=[SPM + "spectral_layout", A + "spectral_layout_die", A + "normalize"],
          scope="bounded: 28 designs whose given centres are symmetric about an axis of the die, 0 trials (given centres) and 1 / 3 trials")
def symmetric_given_centres(replay=None):
    """added after seed C14-14 (normalisation moved before the 'all nodes in the same place' test): starts in which one centroid step puts all
    movable nodes on the same coordinate are valid inputs; the placement must not stop on them"""
    import json as _json
    from frame.geometry.geometry import Shape
    failures, evals = [], 0
    designs = _symmetric_designs()
    for k, (W, H, doc, what) in enumerate(designs):
        if replay and k != replay["k"]:
            continue
        for mode in ([replay["mode"]] if replay else (0, 1, 3)):
            Rectangle.undefine_epsilon()
            sn = sp.Spectral(_json.dumps(doc, indent=1))
            random.seed(11 + k)
            evals += 1
            try:
                sn.spectral_layout(Shape(W, H), mode, False)
            except Exception as e:  # noqa
                failures.append(dict(clause="float.never_fails", k=k, mode=mode, design=what, die=[W, H], observed=f"{type(e).__name__}: {e}"))
                continue
            tol = 1e-9 * max(W, H)
            for m in sn.modules:
                r = _radius(m)
                if m.center is None or not (r - tol <= m.center.x <= W - r + tol and r - tol <= m.center.y <= H - r + tol):
                    failures.append(dict(clause="float.disc_of_every_movable_module_inside_the_die", k=k, mode=mode, design=what, die=[W, H], module=m.name,
                                         centre=None if m.center is None else [m.center.x, m.center.y], radius=r))
                    break
    Rectangle.undefine_epsilon()
    return dict(evaluations=evals, distinct_nontrivial=evals, exhaustive=False, failures=failures[:4],
                rule="grids of 2-3 columns x 2-4 rows of equal soft modules centred on the lattice of the die (symmetric about both axes), nets as a ring, "
                     "as rows and columns, or all crossing the vertical axis; placed from the given centres (0 trials) and with 1 / 3 random trials",
                samples=[designs[0][3]], bound=f"{len(designs)} designs x 3 modes")


@contract(P, canary=True)
def canary_normalize_keeps_every_entry_strictly_inside(S):
    """negative control: the limiting entry reaches its span, so 'strictly inside' must be refuted"""
    x = vec(S, "x", 2)
    span = vec(S, "s", 2, nonneg=True)
    out = S.call(sa.normalize, x, span, [False, False])
    S.ensure("canary.strictly_inside", sand(sabs(x[0]) < span[0], sabs(x[1]) < span[1]) if out.ok else True)
