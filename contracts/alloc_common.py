"""Shared by C02 / C12 / C03: symbolic allocation cells, list summaries (DESIGN 2.5) and the _split_allocation contract."""
import z3

from vf import core, symx, loopshape
from vf.symx import SymReal, SymInt, SymBool, sand, sor, snot, seq, siff, simplies, sif, smax, smin
from vf.specs import box, ovl, box_ovl, box_inside, box_eq, interiors_disjoint, box_area
from .common import *  # noqa

import frame.allocation.allocation as amod
from frame.allocation.allocation import Allocation, RectAlloc

core.shim(amod)
A = "frame.allocation.allocation.Allocation."
MODS = ["M0", "M1", "M2"]


def mk_cell(S, p, k, fixed=False, region="_"):
    """An arbitrary cell: symbolic rectangle, k symbolic occupancy ratios in [0,1], symbolic depth >= 0."""
    r = mk_rect(S, p, region, fixed)
    alloc = {}
    for i in range(k):
        v = S.real(f"{p}a{i}")
        S.assume(sand(v >= 0, v <= 1))
        alloc[MODS[i]] = v
    d = S.int(p + "d", lo=0)
    return r, alloc, d


def bare_allocation(cells):
    """An Allocation holding exactly `cells`.  The object is created by the REAL constructor (on a trivial concrete
    allocation, so that whatever the constructor initialises exists) and its cell list is then replaced in place through
    the public `allocations` list; the constructor's own contract (validation, areas, centres) is checked separately."""
    saved = (Rectangle._distance_epsilon, Rectangle._area_epsilon)
    Rectangle._distance_epsilon, Rectangle._area_epsilon = 1e-9, 1e-9     # concrete while the seed object is built
    try:
        a = Allocation([([1.0, 1.0, 2.0, 2.0], {"M0": 1.0})])
    finally:
        Rectangle._distance_epsilon, Rectangle._area_epsilon = saved
    a.allocations[:] = [RectAlloc(r, al, d) for r, al, d in cells]
    return a


class Capture(Allocation):
    """Stands for the Allocation constructor inside refine/uniform/griddify: captures the descriptor list."""

    def __init__(self, lst):  # noqa
        self.captured = lst


class Summary:
    """Summary of a (possibly unbounded) list of cell descriptors: count, additive folds, hull and conjunctive facts."""

    def __init__(self, n, area, mx, my, hull, depth, depth_ok, shape, shape_ok, ratios, ratios_ok, fresh_maps, attrs,
                 attrs_ok, disjoint, items=None):
        self.n, self.area, self.mx, self.my, self.hull = n, area, mx, my, hull
        self.depth, self.depth_ok, self.shape, self.shape_ok = depth, depth_ok, shape, shape_ok
        self.ratios, self.ratios_ok, self.fresh_maps = ratios, ratios_ok, fresh_maps
        self.attrs, self.attrs_ok, self.disjoint = attrs, attrs_ok, disjoint
        self.items = items          # concrete descriptors when the list is a real list (else None)

    def __iter__(self):             # list.extend(summary) keeps the summary as one pseudo-element
        yield self

    @staticmethod
    def of_descriptor(desc, parent_alloc=None):
        r, al, d = desc
        b = box(r)
        a = r.shape.w * r.shape.h
        return Summary(1, a, a * r.center.x, a * r.center.y, b, d, True, (r.shape.w, r.shape.h), True,
                       dict(al), True, (parent_alloc is None or al is not parent_alloc), (r.region, r.fixed, r.hard), True,
                       True, items=[desc])

    def __add__(self, o):
        if isinstance(o, list):
            o = Summary.of_list(o)
        if not isinstance(o, Summary):
            return NotImplemented
        hull = (smin(self.hull[0], o.hull[0]), smin(self.hull[1], o.hull[1]), smax(self.hull[2], o.hull[2]), smax(self.hull[3], o.hull[3]))
        same_keys = list(self.ratios.keys()) == list(o.ratios.keys())
        return Summary(self.n + o.n, self.area + o.area, self.mx + o.mx, self.my + o.my, hull,
                       self.depth, sand(self.depth_ok, o.depth_ok, seq(self.depth, o.depth)),
                       self.shape, sand(self.shape_ok, o.shape_ok, seq(self.shape[0], o.shape[0]), seq(self.shape[1], o.shape[1])),
                       self.ratios, sand(self.ratios_ok, o.ratios_ok, same_keys,
                                         *([seq(self.ratios[k], o.ratios[k]) for k in self.ratios] if same_keys else [])),
                       self.fresh_maps and o.fresh_maps, self.attrs, sand(self.attrs_ok, o.attrs_ok, self.attrs == o.attrs),
                       # fold-homomorphism fact L-disj: two pairwise-disjoint families whose hulls have disjoint interiors
                       sand(self.disjoint, o.disjoint, interiors_disjoint(self.hull, o.hull)),
                       items=(self.items + o.items) if self.items is not None and o.items is not None else None)

    def __radd__(self, o):
        if isinstance(o, list):
            return Summary.of_list(o) + self if o else self
        return NotImplemented

    @staticmethod
    def of_list(lst, parent_alloc=None):
        parts = [x if isinstance(x, Summary) else Summary.of_descriptor(x, parent_alloc) for x in lst]
        if not parts:
            return None
        if all(p.items is not None for p in parts) and sum(len(p.items) for p in parts) <= 8:
            # concrete short list: exact pairwise disjointness instead of the hull rule
            items = [d for p in parts for d in p.items]
            s = parts[0]
            for p in parts[1:]:
                s = s + p
            s.disjoint = sand(*[interiors_disjoint(box(items[i][0]), box(items[j][0]))
                                for i in range(len(items)) for j in range(i + 1, len(items))]) if len(items) > 1 else True
            # aliasing among the maps themselves
            s.fresh_maps = s.fresh_maps and len({id(d[1]) for d in items}) == len(items)
            return s
        s = parts[0]
        for p in parts[1:]:
            s = s + p
        return s


def pow2(S, n):
    if isinstance(n, SymInt):
        return S.pow2(n)
    return 2 ** n


# spec function of C12: the common shape after halving the longer side `n` times (uninterpreted; unfolded by hand)
_shw = z3.Function("shape_w", z3.RealSort(), z3.RealSort(), z3.IntSort(), z3.RealSort())
_shh = z3.Function("shape_h", z3.RealSort(), z3.RealSort(), z3.IntSort(), z3.RealSort())


def spec_shape(S, w, h, n):
    """(w', h') = shape(w, h, n) with one unfolding of its definition added to the path condition:
       shape(w,h,0) = (w,h);  shape(w,h,n) = shape(w, h/2, n-1) if h > w else shape(w/2, h, n-1)."""
    if not isinstance(n, SymInt):
        ww, hh = w, h
        for _ in range(n):
            tall = hh > ww
            ww, hh = sif(tall, ww, ww / 2), sif(tall, hh / 2, hh)
        return ww, hh
    tw, th, tn = symx.to_real(symx.term(w)), symx.to_real(symx.term(h)), symx.term(n)
    rw, rh = _shw(tw, th, tn), _shh(tw, th, tn)
    if S.mode == "sym":
        tall = th > tw
        S._add(z3.Implies(tn == 0, z3.And(rw == tw, rh == th)))
        S._add(z3.Implies(tn > 0, z3.And(rw == z3.If(tall, _shw(tw, th / 2, tn - 1), _shw(tw / 2, th, tn - 1)),
                                         rh == z3.If(tall, _shh(tw, th / 2, tn - 1), _shh(tw / 2, th, tn - 1)))))
    return SymReal(rw), SymReal(rh)


def split_contract_post(S, pre, rect, alloc, depth, levels, s: Summary):
    """Postcondition of Allocation._split_allocation(rect, alloc, depth, levels) on the summary of its result."""
    R = box(rect)
    area = rect.shape.w * rect.shape.h
    S.ensure(pre + ".count_is_2^levels", seq(s.n, pow2(S, levels)))
    S.ensure(pre + ".areas_add_up", seq(s.area, area))
    S.ensure(pre + ".area_weighted_centre_conserved", sand(seq(s.mx, area * rect.center.x), seq(s.my, area * rect.center.y)))
    S.ensure(pre + ".all_pieces_inside_parent", box_inside(s.hull, R))
    S.ensure(pre + ".pieces_pairwise_disjoint", s.disjoint)
    S.ensure(pre + ".depth_raised_by_levels", sand(s.depth_ok, seq(s.depth, depth + levels)))
    keys_ok = list(s.ratios.keys()) == list(alloc.keys())
    S.ensure(pre + ".ratios_inherited", sand(s.ratios_ok, keys_ok, *([seq(s.ratios[k], alloc[k]) for k in alloc] if keys_ok else [])))
    S.ensure(pre + ".ratio_maps_are_fresh_objects", s.fresh_maps)
    S.ensure(pre + ".attributes_inherited", sand(s.attrs_ok, s.attrs == (rect.region, rect.fixed, rect.hard)))
    sw, sh = spec_shape(S, rect.shape.w, rect.shape.h, levels)
    S.ensure(pre + ".equal_cells_by_halving_the_longer_side", sand(s.shape_ok, seq(s.shape[0], sw), seq(s.shape[1], sh)))


def split_stub(S):
    """Contract stub of Allocation._split_allocation: result described by fresh symbols constrained by the contract
    (used for recursive calls -- with the measure obligation -- and by callers)."""
    def stub(rect, alloc, depth, levels=0):
        lv = levels
        st = symx.cur()
        st.ensure("call_split_allocation.pre_levels_nonnegative", lv >= 0)
        if not isinstance(lv, SymInt) and lv == 0:
            return [(rect, {m: r for m, r in alloc.items()}, depth)]
        R = box(rect)
        area = rect.shape.w * rect.shape.h
        n = pow2(st, lv)
        hull = tuple(st.fresh_real("hull") for _ in range(4))
        mx, my = st.fresh_real("mx"), st.fresh_real("my")
        ar = st.fresh_real("area")
        sw, sh = spec_shape(st, rect.shape.w, rect.shape.h, lv)
        st.assume(sand(seq(ar, area), seq(mx, area * rect.center.x), seq(my, area * rect.center.y), box_inside(hull, R),
                       hull[0] <= hull[2], hull[1] <= hull[3]))
        return Summary(n, ar, mx, my, hull, depth + lv, True, (sw, sh), True, dict(alloc), True, True,
                       (rect.region, rect.fixed, rect.hard), True, True, items=None)
    return stub


REAL_SPLIT = Allocation.__dict__["_split_allocation"].__func__


def flatmap_or_note(S, fn, idx=0, accumulators=("new_alloc",)):
    """FLATMAP side condition of the per-cell lifting; when the loop no longer has that shape the per-cell obligations
    are still checked but only as a bounded-structure leg (recorded in the evidence), never as a violation."""
    try:
        return loopshape.flatmap_shape(fn, idx, accumulators=list(accumulators))
    except loopshape.ShapeError as e:
        S.cover("loop-cut-not-applicable: " + fn.__qualname__ + ": " + str(e))
        return None
