"""C04 -- netlist write -> read round trip preserves the design (frame/netlist/yaml_write_netlist.py, yaml_read_netlist.py,
netlist.py, module.py).  Tree level: Netlist(tree) -> dump_yaml_modules/dump_yaml_edges -> Netlist(tree2); the YAML text
layer (ruamel) is assumed to map a tree of dict/list/str/number/bool to itself (tuples become lists) and is exercised
concretely in a bounded leg."""
import random
import json
import os
import warnings

from vf.core import contract
from .netlist_common import *  # noqa
from .C05_netlist import ovl_r
import frame.utils.utils as futils2

P = "C04"
W = "frame.netlist.yaml_write_netlist."


def normalise(tree):
    """what the text layer does to the tree (assumed contract of ruamel.yaml): tuples come back as lists"""
    if isinstance(tree, dict):
        return {k: normalise(v) for k, v in tree.items()}
    if isinstance(tree, (list, tuple)):
        return [normalise(v) for v in tree]
    return tree


def tree_eq(a, b):
    if isinstance(a, dict) and isinstance(b, dict):
        if list(a.keys()) != list(b.keys()):
            return False
        return sand(*[tree_eq(a[k], b[k]) for k in a]) if a else True
    if isinstance(a, list) and isinstance(b, list):
        if len(a) != len(b):
            return False
        return sand(*[tree_eq(x, y) for x, y in zip(a, b)]) if a else True
    if isinstance(a, bool) or isinstance(b, bool) or isinstance(a, str) or isinstance(b, str) or a is None or b is None:
        return type(a) is type(b) and a == b
    return seq(a, b)


def module_eq(a, b):
    """same kind, per-region areas, centre, aspect-ratio bounds, rectangles with their regions (in order)"""
    conds = [a.name == b.name and a.is_soft == b.is_soft and a.is_hard == b.is_hard and a.is_fixed == b.is_fixed
             and a.is_terminal == b.is_terminal and a.flip == b.flip]
    conds.append(sorted(a.area_regions.keys()) == sorted(b.area_regions.keys()) and
                 sand(*[seq(a.area_regions[k], b.area_regions[k]) for k in a.area_regions]))
    conds.append((a.center is None) == (b.center is None) and
                 (a.center is None or sand(seq(a.center.x, b.center.x), seq(a.center.y, b.center.y))))
    conds.append((a.aspect_ratio is None) == (b.aspect_ratio is None) and
                 (a.aspect_ratio is None or sand(seq(a.aspect_ratio.min_wh, b.aspect_ratio.min_wh), seq(a.aspect_ratio.max_wh, b.aspect_ratio.max_wh))))
    conds.append(len(a.rectangles) == len(b.rectangles) and
                 sand(*[sand(seq(x.center.x, y.center.x), seq(x.center.y, y.center.y), seq(x.shape.w, y.shape.w), seq(x.shape.h, y.shape.h),
                             x.region == y.region and x.fixed == y.fixed and x.hard == y.hard) for x, y in zip(a.rectangles, b.rectangles)]))
    return sand(*conds)


def netlist_eq(a, b):
    if [m.name for m in a.modules] != [m.name for m in b.modules] or a.num_edges != b.num_edges:
        return False
    conds = [module_eq(x, y) for x, y in zip(a.modules, b.modules)]
    for e, f in zip(a.edges, b.edges):
        conds.append([m.name for m in e.modules] == [m.name for m in f.modules] and seq(e.weight, f.weight))
    return sand(*conds)


def _roundtrip(S, tree, pre):
    E, EA = set_eps(S)
    stub_find_location(S, E, EA)
    o1 = S.call(Netlist, tree)
    if not o1.ok:
        S.ensure(pre + ".documents_outside_the_property_are_cleanly_rejected", o1.raised(AssertionError))
        return      # the property quantifies over netlists the reader accepts
    n1 = o1.value
    d1 = S.call(lambda: {"Modules": ywrite.dump_yaml_modules(n1.modules), "Nets": ywrite.dump_yaml_edges(n1.edges)})
    S.ensure(pre + ".write_succeeds", d1.ok)
    if not d1.ok:
        return
    t1 = normalise(d1.value)
    o2 = S.call(Netlist, t1)
    S.ensure(pre + ".written_document_is_accepted", o2.ok)
    if not o2.ok:
        return
    n2 = o2.value
    S.ensure(pre + ".reloaded_design_is_the_same", netlist_eq(n1, n2))
    d2 = S.call(lambda: {"Modules": ywrite.dump_yaml_modules(n2.modules), "Nets": ywrite.dump_yaml_edges(n2.edges)})
    S.ensure(pre + ".writing_the_reloaded_design_gives_the_identical_document", d2.ok and tree_eq(t1, normalise(d2.value)))
    d3 = S.call(lambda: {"Modules": ywrite.dump_yaml_modules(n1.modules), "Nets": ywrite.dump_yaml_edges(n1.edges)})
    S.ensure(pre + ".writing_twice_gives_the_identical_document", d3.ok and tree_eq(t1, normalise(d3.value)))


SOFT = [dict(area=a, center=c, ar=r, nrect=n) for a in ("scalar", "ground_dict", "one_region", "two_regions")
        for c in (True, False) for r in (None, "scalar", "pair") for n in (0, 1, 2)]


@contract(P, functions=[W + "dump_yaml_module", W + "dump_yaml_modules", W + "dump_yaml_rectangles", N + "yaml_read_netlist.parse_yaml_module"],
          params=SOFT, budget_s=600)
def soft_module_roundtrip(S, area, center, ar, nrect):
    info = soft_module(S, "m", area, center, ar, nrect, regions=("LUT" if area in ("one_region", "two_regions") else None, "DSP" if area == "two_regions" else None))
    _roundtrip(S, {"Modules": {"M": info}}, "soft")


@contract(P, functions=[W + "dump_yaml_module", W + "dump_yaml_rectangles"],
          params=[dict(nrect=k, fixed=f, flip=fl) for k in (1, 2) for f in (False, True) for fl in (False, True) if not (f and fl)], budget_s=600)
def hard_module_roundtrip(S, nrect, fixed, flip):
    info = hard_module(S, "h", nrect, fixed, flip)
    _roundtrip(S, {"Modules": {"H": info}}, "hard")


@contract(P, functions=[W + "dump_yaml_module"], params=[dict(center=c, fixed=f, nrect=k) for c in (True, False) for f in (False, True) for k in (0, 1)])
def terminal_roundtrip(S, center, fixed, nrect):
    """nrect=1 (added after seed C04-12): a terminal with a rectangle -- a pad with a physical size -- is accepted by the reader"""
    _roundtrip(S, {"Modules": {"T": terminal_module(S, "t", center, fixed, nrect)}}, "terminal")


@contract(P, functions=[W + "dump_yaml_edges", N + "yaml_read_netlist.parse_yaml_edges"],
          params=[dict(pins=k, weight=w) for k in (2, 3, "repeated", "same_twice") for w in ("none", "sym", "one")], budget_s=600)
def nets_roundtrip(S, pins, weight):
    names = ["A", "B", "C"]
    mods = {nm: soft_module(S, nm.lower(), "scalar", True) for nm in names}
    # a module may occur several times in a net (accepted by the reader; added after seed C04-12: the writer kept one entry per module)
    net = ["A", "A", "B"] if pins == "repeated" else ["C", "C"] if pins == "same_twice" else names[:pins]
    if weight == "sym":
        net = net + [S.real("w", pos=True)]      # includes the value 1, which the writer omits
    elif weight == "one":
        net = net + [1]
    _roundtrip(S, {"Modules": mods, "Nets": [net, ["C", "A", S.real("w2", pos=True)]]}, "nets")


@contract(P, functions=[W + "dump_yaml_modules", W + "dump_yaml_edges", N + "netlist.Netlist.__init__"], budget_s=900)
def mixed_netlist_roundtrip(S):
    mods = {"S": soft_module(S, "s", "two_regions", True, "pair", 1, regions=("LUT",)), "F": hard_module(S, "f", 1, True),
            "H": hard_module(S, "h", 1, False, True), "T": terminal_module(S, "t", True, False), "Q": soft_module(S, "q", "scalar", False)}
    _roundtrip(S, {"Modules": mods, "Nets": [["S", "F", "T"], ["H", "Q", S.real("w", pos=True)]]}, "mixed")


@contract(P, canary=True)
def canary_centre_lost(S):
    E, EA = set_eps(S)
    n1 = Netlist({"Modules": {"M": soft_module(S, "m", "scalar", True)}})
    t1 = normalise({"Modules": ywrite.dump_yaml_modules(n1.modules)})
    S.ensure("canary.no_centre_written", "center" not in t1["Modules"]["M"])


# ---- bounded leg: the same round trip through the real YAML TEXT (ruamel) on concrete documents -------------------------

NAMES = ["ctrl", "alu", "Mem", "zz_top", "B2"]         # neither in ASCII nor in case-insensitive order (a dumper that sorts keys would show)
NAMES_UNSORTED = True


def _rand_doc(rng):
    def num():
        return rng.choice([rng.randint(1, 9), round(rng.uniform(0.1, 9.9), 1), rng.uniform(0.1, 9.9)])
    mods = {}
    k = rng.randint(2, 5)
    x = 0.0
    for i in range(k):
        kind = rng.choice(["soft", "soft", "softreg", "hard", "fixed", "terminal", "flip"])
        nm = NAMES[i] if NAMES_UNSORTED else f"M{i}"
        x += 20
        if kind in ("soft", "softreg"):
            info = {"area": num() if kind == "soft" else {"LUT": num(), "DSP": num(), "BRAM": num()}}
            if rng.random() < 0.7:
                info["center"] = [x + num(), num()]
            if rng.random() < 0.5:
                # intervals that are symmetric only up to rounding must come back as they were (after the open seed r8-C04-1)
                info["aspect_ratio"] = rng.choice([[0.5, 2.0], 3, [0, 4], [0.333333333333, 3], [0.14285714285714, 7], [0.1, 10.0000000000005], [0.6666666666666, 1.5]])
            if rng.random() < 0.4:
                info["rectangles"] = [[x + 1.0, 2.0, 2.0, 2.0] + (["LUT"] if kind == "softreg" else []), [x + 3.0, 2.0, 2.0, 1.0]]
            if "center" not in info and "rectangles" not in info:
                info["center"] = [x, 1.0]
        elif kind in ("hard", "fixed", "flip"):
            info = {"fixed": True} if kind == "fixed" else {"hard": True}
            if kind == "flip":
                info["flip"] = True
            w = num()
            info["rectangles"] = [[x + 5.0, 5.0, float(w), 2.0], [x + 5.0, 7.0, float(w) / 2, 2.0]] if rng.random() < 0.5 else [[x + 5.0, 5.0, float(w), float(num())]]
        else:
            info = {"terminal": True, "center": [x + num(), num()]}
            if rng.random() < 0.3:
                info["fixed"] = True
            if rng.random() < 0.3:
                info["rectangles"] = [[x + 5.0, 5.0, float(num()), float(num())]]
        mods[nm] = info
    names = list(mods)
    nets = []
    for _ in range(rng.randint(0, 3)):
        e = rng.sample(names, rng.randint(2, min(4, len(names))))
        if rng.random() < 0.25:     # the same module twice in a net
            e.insert(rng.randrange(len(e) + 1), rng.choice(e))
        if rng.random() < 0.6:
            e.append(rng.choice([2, 0.5, 1, 1.0, num()]))
        nets.append(e)
    return {"Modules": mods, "Nets": nets}


def _snap(n):
    return ([(m.name, m.is_soft, m.is_hard, m.is_fixed, m.is_terminal, m.flip, sorted(m.area_regions.items()),
              None if m.center is None else (m.center.x, m.center.y),
              None if m.aspect_ratio is None else (m.aspect_ratio.min_wh, m.aspect_ratio.max_wh),
              [(r.center.x, r.center.y, r.shape.w, r.shape.h, r.region, r.fixed, r.hard) for r in m.rectangles]) for m in n.modules],
            [([m.name for m in e.modules], e.weight) for e in n.edges])


@contract(P, kind="enum", functions=[N + "netlist.Netlist.write_yaml", "frame.utils.utils.write_yaml", "frame.utils.utils.read_yaml"],
          scope="bounded: random concrete documents through the real YAML text", params=[dict(chunk=i) for i in range(8)])
def text_roundtrip(chunk, replay=None):
    from frame.utils.utils import write_yaml
    tier = os.environ.get("VERIF_TIER", "quick")
    rng = random.Random(31 * int(os.environ.get("VERIF_SEED", "0") or 0) + chunk)
    n_docs = 150 if tier != "thorough" else 3000
    failures, evals, nontrivial, samples = [], 0, 0, []
    seen = set()
    for _ in range(n_docs):
        doc = replay["doc"] if replay else _rand_doc(rng)
        if not replay and rng.random() < 0.25 and doc["Nets"]:
            # the property speaks of every netlist THE READER ACCEPTS: documents with a defect are tried too (added after seed C04-8: a
            # reader that starts accepting nets with unknown members produced documents it could not read back)
            net = rng.choice(doc["Nets"])
            kind = rng.choice(["unknown_member", "unknown_member", "one_member", "weight_only"])
            if kind == "unknown_member":
                net[rng.randrange(sum(isinstance(x, str) for x in net))] = "Ghost"
            elif kind == "one_member":
                del net[1:sum(isinstance(x, str) for x in net)]
            else:
                del net[:sum(isinstance(x, str) for x in net)]
        Rectangle.undefine_epsilon()
        try:
            with warnings.catch_warnings():
                warnings.simplefilter("ignore")
                # the input text is produced WITHOUT the library's writer (JSON is a subset of YAML): the harness must not depend on the code under test
                n1 = Netlist(json.dumps(doc))
        except Exception:  # noqa
            continue            # not accepted by the reader: outside the property
        if [m.name for m in n1.modules] != list(doc["Modules"]):
            failures.append(dict(clause="text.modules_in_document_order", doc=doc, observed=[m.name for m in n1.modules]))
        evals += 1
        txt = n1.write_yaml()
        key = txt
        if key not in seen:
            seen.add(key)
            nontrivial += 1
        if len(samples) < 2:
            samples.append(txt)
        try:
            n2 = Netlist(txt)
        except Exception as e:  # noqa
            failures.append(dict(clause="text.written_document_is_accepted", doc=doc, observed=f"{type(e).__name__}: {e}", text=txt))
            continue
        if _snap(n1) != _snap(n2):
            failures.append(dict(clause="text.reloaded_design_is_the_same", doc=doc, before=str(_snap(n1)), after=str(_snap(n2))))
        elif n2.write_yaml() != txt or n1.write_yaml() != txt:
            failures.append(dict(clause="text.writing_is_repeatable", doc=doc, text=txt, again=n2.write_yaml()))
        if replay:
            break
    Rectangle.undefine_epsilon()
    return dict(evaluations=evals, distinct_nontrivial=nontrivial, exhaustive=False, failures=failures[:5],
                rule="random documents mixing soft (scalar / per-region area, centre, aspect ratio, rectangles in regions), hard, "
                     "flippable, fixed and terminal modules and weighted nets; written by Netlist.write_yaml to YAML text, read "
                     "back by Netlist(text); compared field by field (exact equality of doubles); non-trivial = distinct documents accepted",
                samples=samples, bound=f"{n_docs} documents per chunk")
