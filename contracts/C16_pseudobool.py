"""C16 -- pseudo-Boolean expression algebra preserves integer semantics (tools/rect/pseudobool.py).
Spec: val(e, sigma) = e.c + sum_t coef_t * [literal_t true under sigma].  All coefficients, constants and multipliers
are symbolic integers (all of Z); the assignment sigma is symbolic; the *set of variables* of the operands is
enumerated (each variable absent / positive / negated in each operand)."""
import itertools

from vf import core
from vf.core import contract
from vf.symx import sand, sor, snot, seq, siff, simplies, sif
import tools.rect.pseudobool as pb

core.shim(pb)
P = "C16"
M = "tools.rect.pseudobool."


def mk_expr(S, p, states):
    c = S.int(p + "c")
    t = {}
    for v, st in states.items():
        if st:
            k = S.int(p + "k" + v, lo=1)
            t[v] = pb.Term(pb.Literal(v, st == 1), k)
    return pb.Expr(c, t)


def sigma_for(S, vs):
    return {v: S.symbool("s_" + v) for v in vs}


def lit_true(L, sigma):
    return siff(sigma[L.v], L.s)


def val(e, sigma):
    r = e.c
    for key, t in e.t.items():
        r = r + sif(lit_true(t.L, sigma), t.c, 0)
    return r


def val_term(t, sigma):
    return sif(lit_true(t.L, sigma), t.c, 0)


def normal_form(e):
    conds = []
    for key, t in e.t.items():
        conds.append(isinstance(t, pb.Term) and t.L.v == key and isinstance(t.L.s, bool))
        conds.append(t.c > 0)
    return sand(*conds) if conds else True


def snapshot(e):
    return (e.c, [(k, t.L.v, t.L.s, t.c, t) for k, t in e.t.items()])


def unchanged(e, snap):
    c, items = snap
    now = list(e.t.items())
    if len(now) != len(items):
        return False
    conds = [seq(e.c, c)]
    for (k, t), (k0, v0, s0, c0, t0) in zip(now, items):
        conds.append(k == k0 and t is t0 and t.L.v == v0 and t.L.s == s0)
        conds.append(seq(t.c, c0))
    return sand(*conds)


def no_alias(res, *operands):
    ids = {id(t) for o in operands if isinstance(o, pb.Expr) for t in o.t.values()}
    ids |= {id(o) for o in operands if isinstance(o, pb.Term)}
    lids = {id(t.L) for o in operands if isinstance(o, pb.Expr) for t in o.t.values()}
    return all(id(t) not in ids and id(t.L) not in lids for t in res.t.values()) and all(res is not o for o in operands)


STATES = [0, 1, 2]


def _tmpl(vs):
    return [dict(zip(vs, c)) for c in itertools.product(STATES, repeat=len(vs))]


def _check_result(S, pre, out, expect, sigma, operands, snaps):
    S.ensure(pre + ".no_raise", out.ok)
    if not out.ok:
        return
    r = out.value
    S.ensure(pre + ".is_expr", isinstance(r, pb.Expr))
    S.ensure(pre + ".value", seq(val(r, sigma), expect))
    S.ensure(pre + ".normal_form", normal_form(r))
    S.ensure(pre + ".operands_unchanged", sand(*[unchanged(o, s) for o, s in zip(operands, snaps)]) if snaps else True)
    S.ensure(pre + ".no_aliasing", no_alias(r, *operands))


# ---- Expr (+|-) Term / Literal / str / int --------------------------------------------------------------

@contract(P, functions=[M + "Expr.__add__", M + "Expr.__sub__", M + "Term.__init__", M + "Expr.__init__"],
          scope="bounded: operand over <= 2 variables (coefficients all of Z)",
          params=[dict(sx=a, sy=b, tv=v, tsign=s) for a in STATES for b in STATES for v in ("x", "z") for s in (True, False)])
def expr_addsub_term(S, sx, sy, tv, tsign):
    e = mk_expr(S, "a", {"x": sx, "y": sy})
    k = S.int("k")
    sigma = sigma_for(S, ["x", "y", "z"])
    t = pb.Term(pb.Literal(tv, tsign), k)
    tv_ = val_term(t, sigma)
    s0 = snapshot(e)
    ve = val(e, sigma)
    _check_result(S, "expr_add_term", S.call(lambda: e + t), ve + tv_, sigma, [e], [s0])
    S.ensure("term_operand_unchanged", sand(seq(t.c, k), t.L.v == tv and t.L.s == tsign))
    _check_result(S, "expr_sub_term", S.call(lambda: e - t), ve - tv_, sigma, [e], [s0])
    S.ensure("term_operand_unchanged", sand(seq(t.c, k), t.L.v == tv and t.L.s == tsign))


@contract(P, functions=[M + "Expr.__add__", M + "Expr.__sub__"],
          scope="bounded: operand over <= 2 variables (coefficients all of Z)",
          params=[dict(sx=a, sy=b) for a in STATES for b in STATES])
def expr_addsub_atoms(S, sx, sy):
    e = mk_expr(S, "a", {"x": sx, "y": sy})
    sigma = sigma_for(S, ["x", "y", "z"])
    n = S.int("n")
    s0 = snapshot(e)
    ve = val(e, sigma)
    for v in ("x", "z"):
        lv = sif(sigma[v], 1, 0)
        _check_result(S, "expr_add_str", S.call(lambda: e + v), ve + lv, sigma, [e], [s0])
        _check_result(S, "expr_sub_str", S.call(lambda: e - v), ve - lv, sigma, [e], [s0])
        for sg in (True, False):
            L = pb.Literal(v, sg)
            ll = sif(lit_true(L, sigma), 1, 0)
            _check_result(S, "expr_add_literal", S.call(lambda: e + L), ve + ll, sigma, [e], [s0])
            _check_result(S, "expr_sub_literal", S.call(lambda: e - L), ve - ll, sigma, [e], [s0])
    _check_result(S, "expr_add_int", S.call(lambda: e + n), ve + n, sigma, [e], [s0])
    _check_result(S, "expr_sub_int", S.call(lambda: e - n), ve - n, sigma, [e], [s0])


# ---- Expr (+|-) Expr -----------------------------------------------------------------------------------------

@contract(P, functions=[M + "Expr.__add__", M + "Expr.__sub__"],
          scope="bounded: operands over <= 2 variables (coefficients all of Z)",
          params=[dict(ax=a, ay=b, bx=c, by=d) for a in STATES for b in STATES for c in STATES for d in STATES])
def expr_addsub_expr(S, ax, ay, bx, by):
    a = mk_expr(S, "a", {"x": ax, "y": ay})
    b = mk_expr(S, "b", {"x": bx, "y": by})
    sigma = sigma_for(S, ["x", "y"])
    sa, sb = snapshot(a), snapshot(b)
    va, vb = val(a, sigma), val(b, sigma)
    _check_result(S, "expr_add_expr", S.call(lambda: a + b), va + vb, sigma, [a, b], [sa, sb])
    _check_result(S, "expr_sub_expr", S.call(lambda: a - b), va - vb, sigma, [a, b], [sa, sb])


@contract(P, tier="thorough", functions=[M + "Expr.__add__", M + "Expr.__sub__"], budget_s=900,
          scope="bounded: operands over <= 3 variables (coefficients all of Z)",
          params=[dict(st=list(c)) for c in itertools.product(STATES, repeat=6) if c[2] or c[5]])
def expr_addsub_expr3(S, st):
    a = mk_expr(S, "a", dict(zip("xyz", st[:3])))
    b = mk_expr(S, "b", dict(zip("xyz", st[3:])))
    sigma = sigma_for(S, ["x", "y", "z"])
    sa, sb = snapshot(a), snapshot(b)
    va, vb = val(a, sigma), val(b, sigma)
    _check_result(S, "expr_add_expr", S.call(lambda: a + b), va + vb, sigma, [a, b], [sa, sb])
    _check_result(S, "expr_sub_expr", S.call(lambda: a - b), va - vb, sigma, [a, b], [sa, sb])


@contract(P, functions=[M + "Expr.__add__"], scope="self-addition: e + e, e - e (same object on both sides)",
          params=[dict(sx=a, sy=b) for a in STATES for b in STATES])
def expr_self(S, sx, sy):
    e = mk_expr(S, "a", {"x": sx, "y": sy})
    sigma = sigma_for(S, ["x", "y"])
    s0 = snapshot(e)
    ve = val(e, sigma)
    _check_result(S, "expr_add_self", S.call(lambda: e + e), ve + ve, sigma, [e], [s0])
    _check_result(S, "expr_sub_self", S.call(lambda: e - e), 0, sigma, [e], [s0])


# ---- integer multiples -----------------------------------------------------------------------------------------

@contract(P, functions=[M + "Expr.__mul__", M + "Expr.__rmul__"],
          scope="bounded: operand over <= 2 variables (coefficients and multiplier all of Z)",
          params=[dict(sx=a, sy=b) for a in STATES for b in STATES])
def expr_mul(S, sx, sy):
    e = mk_expr(S, "a", {"x": sx, "y": sy})
    k = S.int("k")
    sigma = sigma_for(S, ["x", "y"])
    s0 = snapshot(e)
    ve = val(e, sigma)
    _check_result(S, "expr_mul_int", S.call(lambda: e * k), ve * k, sigma, [e], [s0])
    _check_result(S, "int_mul_expr", S.call(lambda: k * e), ve * k, sigma, [e], [s0])


# ---- Literal / Term overloads --------------------------------------------------------------------------------------

@contract(P, functions=[M + "Literal.__mul__", M + "Literal.__rmul__", M + "Literal.__neg__", M + "Literal.__add__",
                        M + "Literal.__radd__", M + "Term.__mul__", M + "Term.__rmul__", M + "Term.__neg__",
                        M + "Term.__add__", M + "Term.__radd__"],
          params=[dict(sg=s, other=o, osg=t) for s in (True, False) for o in ("x", "y") for t in (True, False)])
def literal_term_overloads(S, sg, other, osg):
    sigma = sigma_for(S, ["x", "y"])
    k, m, n = S.int("k"), S.int("m"), S.int("n")
    L = pb.Literal("x", sg)
    lv = sif(lit_true(L, sigma), 1, 0)
    # Literal * k, k * Literal -> Term
    for nm, f in (("literal_mul_int", lambda: L * k), ("int_mul_literal", lambda: k * L)):
        out = S.call(f)
        S.ensure(nm + ".is_term_with_value", out.ok and isinstance(out.value, pb.Term) and
                 seq(val_term(out.value, sigma), lv * k) if out.ok else False)
    out = S.call(lambda: -L)
    S.ensure("literal_neg.is_complement", out.ok and isinstance(out.value, pb.Literal) and out.value.v == "x" and
             out.value.s == (not sg) and out.value is not L)
    S.ensure("literal_operand_unchanged", L.v == "x" and L.s == sg)
    T = pb.Term(L, k)
    tv = lv * k
    for nm, f in (("term_mul_int", lambda: T * m), ("int_mul_term", lambda: m * T)):
        out = S.call(f)
        S.ensure(nm + ".is_term_with_value", sand(isinstance(out.value, pb.Term), seq(val_term(out.value, sigma), tv * m),
                                                  out.value is not T) if out.ok else False)
    out = S.call(lambda: -T)
    S.ensure("term_neg.value", sand(isinstance(out.value, pb.Term), seq(val_term(out.value, sigma), -tv)) if out.ok else False)
    S.ensure("term_operand_unchanged", sand(seq(T.c, k), T.L.v == "x" and T.L.s == sg))
    # sums with the other kinds of operand
    O = pb.Literal(other, osg)
    ov = sif(lit_true(O, sigma), 1, 0)
    OT = pb.Term(O, m)
    cases = [("literal_add_literal", lambda: L + O, lv + ov), ("literal_add_term", lambda: L + OT, lv + ov * m),
             ("literal_add_int", lambda: L + n, lv + n), ("int_add_literal", lambda: n + L, lv + n),
             ("literal_add_str", lambda: L + other, lv + sif(sigma[other], 1, 0)),
             ("str_add_literal", lambda: other + L, lv + sif(sigma[other], 1, 0)),
             ("term_add_term", lambda: T + OT, tv + ov * m), ("term_add_literal", lambda: T + O, tv + ov),
             ("term_add_int", lambda: T + n, tv + n), ("int_add_term", lambda: n + T, tv + n),
             ("term_add_str", lambda: T + other, tv + sif(sigma[other], 1, 0))]
    for nm, f, expect in cases:
        _check_result(S, nm, S.call(f), expect, sigma, [], [])
    S.ensure("term_operand_unchanged", sand(seq(T.c, k), T.L.v == "x" and T.L.s == sg, seq(OT.c, m), O.s == osg))


# ---- comparisons -> Ineq ---------------------------------------------------------------------------------------

def _ineq_holds(q, sigma):
    lhs = val(q.lhs, sigma)
    if q.op == ">=":
        return lhs >= q.rhs
    if q.op == ">":
        return lhs > q.rhs
    if q.op == "=":
        return seq(lhs, q.rhs)
    return None


def _direct(va, vb, op):
    return {">=": va >= vb, "<=": va <= vb, ">": va > vb, "<": va < vb, "=": seq(va, vb), "==": seq(va, vb)}[op]


def _check_ineq(S, pre, out, va, vb, op, sigma, operands, snaps):
    S.ensure(pre + ".no_raise", out.ok)
    if not out.ok:
        return
    q = out.value
    S.ensure(pre + ".is_ineq", isinstance(q, pb.Ineq) and q.op in (">=", ">", "="))
    if not (isinstance(q, pb.Ineq) and q.op in (">=", ">", "=")):
        return
    S.ensure(pre + ".holds_iff_direct_comparison", siff(_ineq_holds(q, sigma), _direct(va, vb, op)))
    S.ensure(pre + ".lhs_normal_form_without_constant", sand(normal_form(q.lhs), seq(q.lhs.c, 0)))
    S.ensure(pre + ".operands_unchanged", sand(*[unchanged(o, s) for o, s in zip(operands, snaps)]) if snaps else True)


OPS = {">=": lambda a, b: a >= b, "<=": lambda a, b: a <= b, ">": lambda a, b: a > b, "<": lambda a, b: a < b,
       "=": lambda a, b: a == b}


@contract(P, functions=[M + "Ineq.__init__", M + "Expr.__ge__", M + "Expr.__le__", M + "Expr.__gt__", M + "Expr.__lt__",
                        M + "Expr.__eq__"],
          scope="bounded: operands over <= 2 variables (coefficients all of Z)",
          params=[dict(ax=a, ay=b, bx=c, by=d) for a in STATES for b in STATES for c in STATES for d in STATES])
def compare_expr_expr(S, ax, ay, bx, by):
    a = mk_expr(S, "a", {"x": ax, "y": ay})
    b = mk_expr(S, "b", {"x": bx, "y": by})
    sigma = sigma_for(S, ["x", "y"])
    sa, sb = snapshot(a), snapshot(b)
    va, vb = val(a, sigma), val(b, sigma)
    for op, f in OPS.items():
        _check_ineq(S, "expr_" + op + "_expr", S.call(f, a, b), va, vb, op, sigma, [a, b], [sa, sb])
    for op in (">=", "<=", ">", "<", "=", "=="):
        _check_ineq(S, "Ineq(" + op + ")", S.call(pb.Ineq, a, b, op), va, vb, op, sigma, [a, b], [sa, sb])
    out = S.call(pb.Ineq, a, b, "!=")
    S.ensure("Ineq.rejects_unknown_operator", out.raised(Exception))


@contract(P, functions=[M + "Expr.__ge__", M + "Literal.__ge__", M + "Term.__ge__", M + "Literal.__eq__", M + "Term.__eq__"],
          scope="bounded: operand over <= 2 variables",
          params=[dict(sx=a, sy=b, sg=s) for a in STATES for b in STATES for s in (True, False)])
def compare_mixed(S, sx, sy, sg):
    e = mk_expr(S, "a", {"x": sx, "y": sy})
    sigma = sigma_for(S, ["x", "y"])
    n, k = S.int("n"), S.int("k")
    ve = val(e, sigma)
    s0 = snapshot(e)
    L = pb.Literal("y", sg)
    lv = sif(lit_true(L, sigma), 1, 0)
    T = pb.Term(L, k)
    for op, f in OPS.items():
        _check_ineq(S, "expr_" + op + "_int", S.call(f, e, n), ve, n, op, sigma, [e], [s0])
        _check_ineq(S, "expr_" + op + "_literal", S.call(f, e, L), ve, lv, op, sigma, [e], [s0])
        _check_ineq(S, "expr_" + op + "_term", S.call(f, e, T), ve, lv * k, op, sigma, [e], [s0])
        _check_ineq(S, "expr_" + op + "_str", S.call(f, e, "x"), ve, sif(sigma["x"], 1, 0), op, sigma, [e], [s0])
        _check_ineq(S, "literal_" + op + "_int", S.call(f, L, n), lv, n, op, sigma, [], [])
        _check_ineq(S, "literal_" + op + "_expr", S.call(f, L, e), lv, ve, op, sigma, [e], [s0])
        _check_ineq(S, "term_" + op + "_int", S.call(f, T, n), lv * k, n, op, sigma, [], [])
        _check_ineq(S, "term_" + op + "_expr", S.call(f, T, e), lv * k, ve, op, sigma, [e], [s0])


@contract(P, canary=True)
def canary_add_drops_constant(S):
    a = mk_expr(S, "a", {"x": 1, "y": 0})
    b = mk_expr(S, "b", {"x": 2, "y": 1})
    sigma = sigma_for(S, ["x", "y"])
    out = S.call(lambda: a + b)
    S.ensure("canary.sum_ignores_constants", seq(val(out.value, sigma), val(a, sigma) + val(b, sigma) - a.c) if out.ok else False)


# ---- bounded leg: larger expression trees (the symbolic runs hold operands over <= 2 / 3 variables and ONE operator application) --------

@contract(P, kind="enum", functions=[M + "Expr.__add__", M + "Expr.__sub__", M + "Expr.__mul__", M + "Expr.__rmul__", M + "Expr.__radd__", M + "Expr.__rsub__",
                                     M + "Expr.__neg__", M + "Ineq.__init__", M + "Literal.__add__", M + "Term.__add__"],
          scope="bounded: random expression trees of depth <= 5 over 5 variables (both polarities, integer constants and multipliers incl. 0 and "
                "negatives, reflected operators), all 32 assignments, all five comparison operators", params=[dict(chunk=i) for i in range(8)])
def larger_expression_trees(chunk, replay=None):
    import os
    import random
    tier = os.environ.get("VERIF_TIER", "quick")
    rng = random.Random(1600 + chunk + 100 * int(os.environ.get("VERIF_SEED", "0") or 0))
    n_cases = 150 if tier != "thorough" else 4000
    VARS = ["a", "b", "c", "d", "e"]
    failures, evals, samples, sizes = [], 0, [], 0

    def build(tree):
        """tree -> (object built with the library's operators, function sigma -> int computed directly)"""
        kind = tree[0]
        if kind == "lit":
            _, v, s = tree
            return pb.Literal(v, s), (lambda sg, v=v, s=s: int(sg[v] == s))
        if kind == "int":
            return tree[1], (lambda sg, k=tree[1]: k)
        if kind == "term":
            _, v, s, k = tree
            return pb.Term(pb.Literal(v, s), k), (lambda sg, v=v, s=s, k=k: k * int(sg[v] == s))
        if kind == "neg":       # the library's unary minus: the complement of a literal, the arithmetic negation of a term or an integer
            o, f = build(tree[1])
            if isinstance(o, pb.Literal):
                return -o, (lambda sg, f=f: 1 - f(sg))
            return -o, (lambda sg, f=f: -f(sg))
        if kind == "mul":
            o, f = build(tree[2])
            k = tree[1]
            return (k * o if tree[3] else o * k), (lambda sg, f=f, k=k: k * f(sg))
        a, fa = build(tree[1])
        b, fb = build(tree[2])
        if kind == "add":
            return a + b, (lambda sg: fa(sg) + fb(sg))
        return a - b, (lambda sg: fa(sg) - fb(sg))

    def gen(depth):
        r = rng.random()
        if depth == 0 or r < 0.25:
            k = rng.random()
            if k < 0.55:
                return ("lit", rng.choice(VARS), rng.random() < 0.6)
            if k < 0.8:
                return ("term", rng.choice(VARS), rng.random() < 0.5, rng.choice([1, 2, 3, 5, 7, 2 ** 31 + 1, 2 ** 53 + 1]))
            return ("int", rng.choice([-3, -1, 0, 1, 2, 4, 2 ** 52 + 3]))
        if r < 0.35:
            return ("neg", gen(0))          # unary minus is defined for literals, terms and integers only
        if r < 0.5:
            # Python integers are exact at any size (after the open seed r8-C16-2: products rounded through a float above 2**52)
            return ("mul", rng.choice([-3, -2, -1, 0, 1, 2, 3, 5, 2 ** 53 + 1, -(2 ** 64) - 7]), gen(depth - 1), rng.random() < 0.5)
        return (rng.choice(["add", "add", "sub"]), gen(depth - 1), gen(depth - 1))

    def expr_val(e, sg):
        if isinstance(e, int):
            return e
        if isinstance(e, pb.Literal):
            return int(sg[e.v] == e.s)
        if isinstance(e, pb.Term):
            return e.c * int(sg[e.L.v] == e.L.s)
        return e.c + sum(t.c * int(sg[t.L.v] == t.L.s) for t in e.t.values())

    def nf(e):
        return not isinstance(e, pb.Expr) or all(isinstance(t, pb.Term) and t.L.v == k and t.c > 0 for k, t in e.t.items())

    sigmas = [dict(zip(VARS, bits)) for bits in itertools.product([False, True], repeat=len(VARS))]
    for it in range(n_cases):
        t1 = replay["t1"] if replay else gen(rng.randint(2, 5))
        t2 = replay["t2"] if replay else gen(rng.randint(1, 4))
        op = replay["op"] if replay else rng.choice([">=", "<=", ">", "<", "=="])
        evals += 1
        info = dict(t1=t1, t2=t2, op=op)
        try:
            e1, f1 = build(t1)
            e2, f2 = build(t2)
        except TypeError:
            continue            # e.g. int - int handled by Python itself or an operator the library does not define for this pair: not an Expr
        except Exception as e:  # noqa
            failures.append(dict(clause="big.building_an_expression_never_fails", observed=f"{type(e).__name__}: {e}", **info))
            continue
        bad = None
        for e, f, nm in ((e1, f1, "first"), (e2, f2, "second")):
            if not nf(e):
                bad = bad or f"{nm} tree: normal form carries a zero / negative coefficient or a misfiled variable"
            for sg in sigmas:
                if expr_val(e, sg) != f(sg):
                    bad = bad or f"{nm} tree evaluates to {expr_val(e, sg)} instead of {f(sg)} under {sg}"
                    break
        if not bad and (isinstance(e1, (pb.Expr, pb.Term, pb.Literal)) or isinstance(e2, (pb.Expr, pb.Term, pb.Literal))):
            try:
                q = {">=": lambda x, y: x >= y, "<=": lambda x, y: x <= y, ">": lambda x, y: x > y, "<": lambda x, y: x < y, "==": lambda x, y: x == y}[op](e1, e2)
            except Exception as e:  # noqa
                q, bad = None, f"comparison {op} raised {type(e).__name__}: {e}"
            if isinstance(q, pb.Ineq):
                if not nf(q.lhs):
                    bad = bad or "inequality: normal form of the left-hand side broken"
                for sg in sigmas:
                    holds = _ineq_holds(q, sg)
                    direct = _direct(f1(sg), f2(sg), op if op != "==" else "==")
                    if bool(holds) != bool(direct):
                        bad = bad or f"built inequality ({op}) holds = {bool(holds)} but the direct comparison of {f1(sg)} and {f2(sg)} is {bool(direct)} under {sg}"
                        break
        if not bad:          # building the comparison (and anything else) must leave its operands as they were
            for e, f, nm in ((e1, f1, "first"), (e2, f2, "second")):
                if any(expr_val(e, sg) != f(sg) for sg in sigmas[:4] + sigmas[-4:]):
                    bad = f"{nm} tree no longer evaluates to its value after it was used in a comparison (operand altered)"
        sizes += 1
        if bad:
            failures.append(dict(clause="big.built_expression_means_what_integer_arithmetic_means", observed=bad, **info))
        if not samples:
            samples.append(info)
        if len(failures) >= 4 or replay:
            break
    return dict(evaluations=evals, distinct_nontrivial=sizes, exhaustive=False, failures=failures[:4],
                rule="two random expression trees (depth <= 5: literals of both polarities, terms, integers, unary minus, integer multiples on either side "
                     "incl. 0 and negatives, + and -) over 5 variables built with the library's operators; value under all 32 assignments against the value "
                     "computed directly from the tree; normal form; then one of the five comparisons between them against the direct comparison",
                samples=samples, bound=f"{n_cases} pairs of trees per chunk")
