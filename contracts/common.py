"""Helpers shared by the contract programs: symbolic instances of the REAL classes."""
from vf import core, symx
from vf.symx import sand, sor, snot, seq, siff, simplies, sif, smax, smin  # noqa: F401
from vf import specs

import frame.geometry.geometry as geo
import frame.utils.utils as futils
from frame.geometry.geometry import Rectangle, Point, Shape

core.shim(geo, futils)

REGIONS = ["_", "A", "#"]


def _reset_rectangle_tolerances():
    """the class-wide tolerances are process-wide state: every path starts from the undefined state (as a fresh process)"""
    Rectangle._distance_epsilon = -1.0
    Rectangle._area_epsilon = -1.0


symx.RESETTERS.append(_reset_rectangle_tolerances)


def set_eps(S, sym=True):
    """Process-wide tolerances as symbolic parameters E > 0, EA >= 0 (every result then holds for any tolerance)."""
    E = S.real("E", pos=True)
    EA = S.real("EA", nonneg=True)
    S.patch(Rectangle, "_distance_epsilon", E)
    S.patch(Rectangle, "_area_epsilon", EA)
    return E, EA


def mk_rect(S, p, region="_", fixed=False, hard=False, constructor=True):
    """A Rectangle built by the real constructor from four symbolic reals (w, h > 0)."""
    x, y = S.real(p + "x"), S.real(p + "y")
    w, h = S.real(p + "w", pos=True), S.real(p + "h", pos=True)
    kw = dict(center=Point(x, y), shape=Shape(w, h))
    if region != "_" or fixed or hard:
        kw.update(region=region, fixed=fixed, hard=hard)
    return Rectangle(**kw)


def attrs_eq(a, b):
    """same region / fixed / hard (concrete attributes)"""
    return a.region == b.region and a.fixed == b.fixed and a.hard == b.hard


def is_rect(x):
    return isinstance(x, Rectangle)
