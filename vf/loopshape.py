"""
Side condition of the per-element ("loop cutting") arguments of DESIGN.md section 3, checked on the AST of the CURRENT
source on every run: the loop is a flat map -- its iterations are independent of each other and of the accumulator.

flatmap_shape(fn, loop_index) accepts a `for <target> in <iter>:` loop iff
  * no break / return / yield / nonlocal / global inside the body;
  * every name assigned in the body (loop locals) is assigned before it is read within the body (so nothing is
    carried from one iteration to the next) and is not read after the loop;
  * the names the body mutates without assigning (accumulators) are used only as  acc.append(..) / acc.extend(..)
    / acc[key] = ..  statements and are never read inside the body.
It returns a description (printed into the evidence) or raises ShapeError; a ShapeError makes the affected contract
fall back to its bounded-structure leg and is never reported as a violation.
"""
import ast
import inspect
import textwrap


class ShapeError(Exception):
    pass


def _fn_ast(fn):
    src = textwrap.dedent(inspect.getsource(fn))
    tree = ast.parse(src)
    node = tree.body[0]
    if not isinstance(node, (ast.FunctionDef,)):
        raise ShapeError("not a function")
    return node, src


def _loops(fnode):
    out = []
    for st in ast.walk(fnode):
        if isinstance(st, ast.For):
            out.append(st)
    out.sort(key=lambda n: (n.lineno, n.col_offset))
    return out


def _names(node, ctx):
    return [n.id for n in ast.walk(node) if isinstance(n, ast.Name) and isinstance(n.ctx, ctx)]


def flatmap_shape(fn, loop_index=0, accumulators=None):
    fnode, src = _fn_ast(fn)
    loops = _loops(fnode)
    if loop_index >= len(loops):
        raise ShapeError(f"function has {len(loops)} for-loops, loop {loop_index} wanted")
    loop = loops[loop_index]
    if loop.orelse:
        raise ShapeError("for-else")
    body = ast.Module(body=loop.body, type_ignores=[])

    def scan(nodes, depth):
        for n in nodes:
            if isinstance(n, ast.Break) and depth == 0:
                raise ShapeError("break out of the loop under analysis")
            if isinstance(n, (ast.Return, ast.Yield, ast.YieldFrom, ast.Nonlocal, ast.Global)):
                raise ShapeError(f"{type(n).__name__} inside the loop body")
            inner = depth + 1 if isinstance(n, (ast.For, ast.While)) else depth
            if isinstance(n, ast.While) and depth == 0 and False:
                pass
            scan(list(ast.iter_child_nodes(n)), inner)
    scan(loop.body, 0)
    targets = set(_names(loop.target, ast.Store))
    # accumulators: names used as receiver of append/extend or as subscript-store base
    acc = set()
    for n in ast.walk(body):
        if isinstance(n, ast.Call) and isinstance(n.func, ast.Attribute) and n.func.attr in ("append", "extend") \
                and isinstance(n.func.value, ast.Name):
            acc.add(n.func.value.id)
    stored = set(_names(body, ast.Store)) - acc
    # inner loops' targets and comprehension variables are locals too
    locals_ = stored | targets
    # every local must be written before read, scanning statements in order (conservative, per top-level stmt order)
    assigned = set(targets)
    for st in loop.body:
        reads = set(_names(st, ast.Load))
        writes = set(_names(st, ast.Store))
        # comprehension / inner-loop variables are bound inside the statement itself
        inner_bound = set()
        for n in ast.walk(st):
            if isinstance(n, ast.comprehension):
                inner_bound |= set(_names(n.target, ast.Store))
            if isinstance(n, ast.For):
                inner_bound |= set(_names(n.target, ast.Store))
        # names assigned by an earlier sub-statement of the same compound statement are accepted (e.g. inside an inner for)
        bad = {r for r in reads if r in locals_ and r not in assigned and r not in inner_bound and r not in writes}
        # `x = f(x)`-style self dependence on an unassigned local
        if bad:
            raise ShapeError(f"loop-carried local(s) {sorted(bad)} read before assignment in the body")
        assigned |= writes | inner_bound
    # accumulators must not be read in the body except as receiver of append/extend
    for n in ast.walk(body):
        if isinstance(n, ast.Name) and n.id in acc and isinstance(n.ctx, ast.Load):
            ok = False
            for c in ast.walk(body):
                if isinstance(c, ast.Call) and isinstance(c.func, ast.Attribute) and c.func.value is n \
                        and c.func.attr in ("append", "extend"):
                    ok = True
            if not ok:
                raise ShapeError(f"accumulator {n.id} is read inside the loop body")
    if accumulators is not None and not acc <= set(accumulators):
        raise ShapeError(f"unexpected accumulators {sorted(acc)} (contract expects {sorted(accumulators)})")
    # locals must not be read after the loop (within the enclosing function body, statements following the loop)
    after = []
    seen = False
    for st in ast.walk(fnode):
        pass
    for st in fnode.body:
        if seen:
            after.append(st)
        if st is loop:
            seen = True
    if seen:
        for st in after:
            leak = set(_names(st, ast.Load)) & (locals_ - acc)
            # a later loop may reuse the same variable name as its own target: accept if it is re-bound first
            rebound = set(_names(st, ast.Store))
            leak -= rebound
            if leak:
                raise ShapeError(f"loop local(s) {sorted(leak)} read after the loop")
    return dict(function=fn.__qualname__, loop_line=loop.lineno, iter=ast.unparse(loop.iter), target=ast.unparse(loop.target),
                accumulators=sorted(acc), locals=sorted(locals_ - acc), template="FLATMAP",
                body=[ast.unparse(s)[:160] for s in loop.body])


def quantifier_shape(fn, kind="any"):
    """The function body is  `return any(<genexp over one iterable>)` / all(...) ; returns the description."""
    fnode, src = _fn_ast(fn)
    stmts = [s for s in fnode.body if not (isinstance(s, ast.Expr) and isinstance(getattr(s, "value", None), ast.Constant))]
    if len(stmts) != 1 or not isinstance(stmts[0], ast.Return):
        raise ShapeError("body is not a single return")
    v = stmts[0].value
    if not (isinstance(v, ast.Call) and isinstance(v.func, ast.Name) and v.func.id == kind and len(v.args) == 1
            and isinstance(v.args[0], ast.GeneratorExp) and len(v.args[0].generators) == 1):
        raise ShapeError(f"not `return {kind}(<generator over one iterable>)`")
    g = v.args[0].generators[0]
    return dict(function=fn.__qualname__, template="QUANT", quantifier=kind, iter=ast.unparse(g.iter),
                element=ast.unparse(g.target), predicate=ast.unparse(v.args[0].elt)[:200])
