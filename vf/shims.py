"""
Builtin shims (DESIGN.md 2.4).  Injected into the *module dictionaries* of the imported repository modules inside
the checker process only -- no source change.  On concrete arguments every shim is the builtin itself, so the code
runs unchanged in concrete mode; on proxies it builds a term instead of forking / leaking.
"""
import builtins
import math as _math
import types

import z3

from . import symx
from .symx import SymReal, SymInt, SymBool, is_sym


def _any_sym(xs):
    return any(isinstance(x, (SymReal, SymInt)) for x in xs)


_INF = builtins.float("inf")


def _drop(xs, inf):
    """max(-inf, x) = x and min(+inf, x) = x: infinities are dropped before building a term."""
    ys = [x for x in xs if not (isinstance(x, builtins.float) and not isinstance(x, SymReal) and x == inf)]
    return ys


def shim_max(*args, **kw):
    if len(args) == 1 and not kw:
        xs = list(args[0])
        if xs and _any_sym(xs):
            ys = _drop(xs, -_INF)
            return ys[0] if len(ys) == 1 else symx.smax(*ys)
        if not xs:
            raise symx.modelled(ValueError("max() iterable argument is empty"))
        return builtins.max(xs)
    if not kw and _any_sym(args):
        ys = _drop(args, -_INF)
        return ys[0] if len(ys) == 1 else symx.smax(*ys)
    return builtins.max(*args, **kw)


def shim_min(*args, **kw):
    if len(args) == 1 and not kw:
        xs = list(args[0])
        if xs and _any_sym(xs):
            ys = _drop(xs, _INF)
            return ys[0] if len(ys) == 1 else symx.smin(*ys)
        if not xs:
            raise symx.modelled(ValueError("min() iterable argument is empty"))
        return builtins.min(xs)
    if not kw and _any_sym(args):
        ys = _drop(args, _INF)
        return ys[0] if len(ys) == 1 else symx.smin(*ys)
    return builtins.min(*args, **kw)


class _FloatMeta(type):
    def __instancecheck__(cls, inst):
        return isinstance(inst, builtins.float)

    def __subclasscheck__(cls, sub):
        return issubclass(sub, builtins.float)

    def __call__(cls, x=0.0):
        if isinstance(x, SymReal):
            return x
        if isinstance(x, SymInt):
            return SymReal(z3.ToReal(x.t))
        return builtins.float(x)


class shim_float(metaclass=_FloatMeta):
    pass


class _IntMeta(type):
    def __instancecheck__(cls, inst):
        return isinstance(inst, (builtins.int, SymInt))

    def __subclasscheck__(cls, sub):
        return issubclass(sub, builtins.int)

    def __call__(cls, x=0, *a):
        if isinstance(x, SymInt):
            return x
        if isinstance(x, SymReal):
            raise symx.ProxyLeak("int() of a symbolic real")
        return builtins.int(x, *a)


class shim_int(metaclass=_IntMeta):
    pass


def shim_range(*args):
    """range() reads the raw value of an int subclass without calling __index__: a symbolic bound would silently become 0."""
    if any(isinstance(a, SymInt) for a in args):
        raise symx.ProxyLeak("symbolic integer used as a range() bound")
    return builtins.range(*args)


class MathShim(types.ModuleType):
    """Stands for the `math` module inside a repository module."""

    def __init__(self):
        super().__init__("math")
        for k in dir(_math):
            if not k.startswith("__"):
                v = getattr(_math, k)
                setattr(self, k, self._guard(k, v) if callable(v) else v)
        self.sqrt = self._sqrt
        self.acos = self._acos
        self.sin = self._sin
        self.cos = self._cos
        self.fabs = lambda x: abs(x) if is_sym(x) else _math.fabs(x)

    @staticmethod
    def _guard(name, fn):
        """any other math function would silently compute with the proxy's raw value (nan / 0): make it a checker error"""
        def guarded(*args, **kw):
            if any(isinstance(a, (SymReal, SymInt)) for a in args):
                raise symx.ProxyLeak(f"math.{name} applied to a symbolic value (not modelled)")
            return fn(*args, **kw)
        guarded.__name__ = name
        return guarded

    @staticmethod
    def _sqrt(x):
        if isinstance(x, (SymReal, SymInt)):
            return symx.cur().sqrt(x)
        return _math.sqrt(x)

    @staticmethod
    def _acos(x):
        if isinstance(x, (SymReal, SymInt)):
            return symx.cur().acos(x)
        return _math.acos(x)

    @staticmethod
    def _sin(x):
        if isinstance(x, (SymReal, SymInt)):
            return symx.cur().sin(x)
        return _math.sin(x)

    @staticmethod
    def _cos(x):
        if isinstance(x, (SymReal, SymInt)):
            return symx.cur().cos(x)
        return _math.cos(x)


MATH = MathShim()

_installed = {}


def install(module, names=("max", "min", "float", "int", "math", "range")):
    """Inject the shims into a repository module's globals (only names the module could see anyway)."""
    table = {"max": shim_max, "min": shim_min, "float": shim_float, "int": shim_int, "math": MATH, "range": shim_range}
    done = []
    for n in names:
        if n == "math" and "math" not in module.__dict__:
            continue
        module.__dict__[n] = table[n]
        done.append(n)
    # `from math import sqrt` style imports
    for fname in ("sqrt", "acos", "sin", "cos"):
        if module.__dict__.get(fname) is getattr(_math, fname):
            module.__dict__[fname] = getattr(MATH, fname)
            done.append(fname)
    _installed[module.__name__] = done
    return done


def installed():
    return dict(_installed)


def selfcheck(rng, n=200):
    """Cross-check the shims against CPython on random concrete values (run at start-up)."""
    bad = 0
    for _ in range(n):
        a, b, c = (rng.uniform(-10, 10) for _ in range(3))
        bad += shim_max(a, b) != max(a, b)
        bad += shim_min(a, b, c) != min(a, b, c)
        bad += shim_max([a, b, c]) != max([a, b, c])
        bad += shim_float(3) != 3.0 or not isinstance(shim_float(3), float)
        bad += shim_int(3.7) != 3
        bad += not isinstance(a, shim_float) or isinstance(a, shim_int) or not isinstance(3, shim_int)
        bad += MATH.sqrt(abs(a)) != _math.sqrt(abs(a))
    return bad
