"""Mathematical spec functions (taken from the property statements, not from the code).
Polymorphic: symbolic proxies give z3 terms, concrete numbers give Python numbers (replay)."""
from .symx import smax, smin, sand, sor, snot, sif, seq, sle, simplies, siff, ssum  # noqa: F401


def box(r):
    """(x0, y0, x1, y1) of a Rectangle-like object with .center.x/.y and .shape.w/.h"""
    cx, cy, w, h = r.center.x, r.center.y, r.shape.w, r.shape.h
    return (cx - w / 2, cy - h / 2, cx + w / 2, cy + h / 2)


def box_ovl(a, b):
    """Area of the common region of two boxes."""
    dx = smax(0, smin(a[2], b[2]) - smax(a[0], b[0]))
    dy = smax(0, smin(a[3], b[3]) - smax(a[1], b[1]))
    return dx * dy


def ovl(a, b):
    return box_ovl(box(a), box(b))


def box_area(b):
    return (b[2] - b[0]) * (b[3] - b[1])


def box_inside(a, b):
    """closed box a inside closed box b"""
    return sand(a[0] >= b[0], a[1] >= b[1], a[2] <= b[2], a[3] <= b[3])


def box_eq(a, b):
    return sand(seq(a[0], b[0]), seq(a[1], b[1]), seq(a[2], b[2]), seq(a[3], b[3]))


def interiors_disjoint(a, b):
    """open boxes do not meet"""
    return sor(a[2] <= b[0], b[2] <= a[0], a[3] <= b[1], b[3] <= a[1])


def almost(a, b, eps):
    """|a-b| < eps  (the library's almost_eq uses a strict comparison; taken here as the definition of
    'coincide within the distance tolerance')"""
    return sand(a - b < eps, b - a < eps)
