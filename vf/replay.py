"""Replay a solver model on the real code in a clean interpreter (no proxies, no shims): concrete mode."""
import json
import os
import sys

os.environ["VF_CONCRETE"] = "1"
from vf import core, symx  # noqa: E402


def main():
    if len(sys.argv) > 1 and sys.argv[1] == "--stdin":
        rec = json.loads(sys.stdin.read())
    else:
        rec = json.load(open(sys.argv[1]))
    prop, task_name = rec["property"], rec["task"]
    values = rec.get("values")
    if values is None:
        values = (rec.get("witness") or {}).get("model") or {}
    core.load_contracts(prop)
    task = next(t for t in core.REGISTRY[prop] if t.name == task_name)
    res = dict(property=prop, task=task_name, values=values)
    if task.kind != "sym":
        out = task.fn(**dict(task.params, replay=rec.get("witness")))
        res.update(failed=[f.get("clause", "bounded") for f in out.get("failures", [])], bounded=True,
                   failures=out.get("failures", [])[:3])
    else:
        try:
            st = symx.run_concrete(task.program(), values)
            res.update(failed=st.failed, passed=st.passed, assume_failed=st.assume_failed, notes=st.notes)
        except Exception as e:  # noqa
            import traceback
            res.update(failed=["<uncaught>"], uncaught=f"{type(e).__name__}: {e}", tb=traceback.format_exc(limit=6))
    print(json.dumps(res, default=str))
    return 1 if res.get("failed") else 0


if __name__ == "__main__":
    sys.exit(main())
