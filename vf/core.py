"""
Task registry, parallel runner, verdicts, replay, known findings, evidence (DESIGN.md sections 6 and 9).
"""
from __future__ import annotations

import importlib
import json
import multiprocessing as mp
import os
import random
import subprocess
import sys
import time
import traceback
from functools import partial

VERIF = os.path.dirname(os.path.dirname(os.path.abspath(__file__)))
OUT = os.environ.get("VF_OUT", VERIF)   # evidence/ and replays/ are written below this directory
REPO = os.environ.get("FRAME_REPO", "/repo")
if REPO not in sys.path:
    sys.path.insert(0, REPO)
if VERIF not in sys.path:
    sys.path.insert(0, VERIF)

SYMBOLIC = os.environ.get("VF_CONCRETE", "") != "1"   # False in the clean replay interpreter

TRUSTED_COMMON = [
    "R-semantics: Python float arithmetic (+,-,*,/,sqrt) treated as exact real arithmetic unless a leg says float/delta-mode",
    "CPython executes the real function objects; only numbers are proxies (vf/symx.py) and max/min/abs/float/int/math are shims (vf/shims.py)",
    "interpreter not run with -O (FRAME validates with assert)",
    "z3 5.1 / cvc5 1.4 are sound",
]


class Task:
    def __init__(self, prop, name, fn, kind, tier, params, budget_s, functions, scope, canary, max_paths, note,
                 shard=None, vc_timeout_s=30, exact_feas_ms=100, leak_ok=False, crosscheck=True):
        self.crosscheck = crosscheck
        self.leak_ok = leak_ok      # a ProxyLeak makes this task inapplicable (a bounded sibling covers it) instead of a checker error
        self.shard = shard
        self.vc_timeout_s = vc_timeout_s
        self.exact_feas_ms = exact_feas_ms
        self.prop, self.name, self.fn, self.kind, self.tier = prop, name, fn, kind, tier
        self.params, self.budget_s, self.functions = params or {}, budget_s, functions or []
        self.scope, self.canary, self.max_paths, self.note = scope, canary, max_paths, note

    def program(self):
        return partial(self.fn, **self.params) if self.params else self.fn


REGISTRY: dict[str, list[Task]] = {}


def contract(prop, name=None, kind="sym", tier="quick", params=None, budget_s=300, functions=None,
             scope="unbounded", canary=False, max_paths=None, note="", shards=1, shard_depth=6,
             vc_timeout_s=30, exact_feas_ms=100, leak_ok=False, crosscheck=True):
    """Register a contract program (kind='sym'), a bounded enumeration (kind='enum') or a static analysis
    (kind='static').  `params` may be a list of dicts: one task per dict."""
    def deco(fn):
        plist = params if isinstance(params, list) else [params]
        for p in plist:
            nm = name or fn.__name__
            if p and isinstance(params, list):
                nm += "[" + ",".join(f"{k}={v}" for k, v in p.items()) + "]"
            for j in range(shards):
                REGISTRY.setdefault(prop, []).append(
                    Task(prop, nm + (f"#{j}/{shards}" if shards > 1 else ""), fn, kind, tier, p, budget_s, functions,
                         scope, canary, max_paths, note, shard=(j, shards, shard_depth) if shards > 1 else None,
                         vc_timeout_s=vc_timeout_s, exact_feas_ms=exact_feas_ms, leak_ok=leak_ok, crosscheck=crosscheck))
        return fn
    return deco


def shim(*modules):
    """Install the builtin shims into repository modules (symbolic runs only)."""
    if not SYMBOLIC:
        return
    from . import shims
    for m in modules:
        shims.install(m)


# ------------------------------------------------------------------------------------------------

def load_contracts(prop):
    import glob
    files = sorted(glob.glob(os.path.join(VERIF, "contracts", f"{prop}_*.py")))
    if not files:
        print(f"CHECKER-ERROR property={prop} no contracts for {prop}")
        raise SystemExit(3)         # a checker error, never a verdict
    mods = []
    for f in files:
        modname = "contracts." + os.path.basename(f)[:-3]
        mods.append(importlib.import_module(modname))
    return mods


class WatchdogTimeout(BaseException):
    """raised by the per-task watchdog; a BaseException so that neither the code under test nor a leg's own `except Exception` swallows it"""


def _run_task(idx_prop):
    prop, idx, seed = idx_prop
    task = REGISTRY[prop][idx]
    random.seed(seed)
    t0 = time.time()
    # the real code runs inside every task: a change that makes it loop forever must not hang the check (watchdog by SIGALRM)
    import signal
    if task.kind == "sym":
        limit = task.budget_s + 3 * task.vc_timeout_s + 120        # the explorer enforces budget_s itself between decisions
    else:
        limit = max(task.budget_s, 300) * (3 if os.environ.get("VERIF_TIER") == "thorough" else 1)

    def _alarm(signum, frame):
        raise WatchdogTimeout(f"task still running after {limit} s (the code under test does not terminate on some input, or the task is too large)")
    old_handler = signal.signal(signal.SIGALRM, _alarm)
    signal.alarm(int(limit))
    try:
        if task.kind == "sym":
            from . import symx
            ex = symx.Explorer(task.program(), name=task.name, budget_s=task.budget_s, max_paths=task.max_paths,
                               shard=task.shard, vc_timeout_ms=task.vc_timeout_s * 1000, exact_feas_ms=task.exact_feas_ms,
                               crosscheck_paths=0 if (task.canary or not task.crosscheck) else 2)
            rep = ex.run().to_dict()
            rep["kind"] = "sym"
        else:
            rep = task.fn(**task.params)
            rep["kind"] = task.kind
            rep.setdefault("name", task.name)
        signal.alarm(0)
        rep["task"] = task.name
        rep["wall_s"] = round(time.time() - t0, 3)
        return rep
    except BaseException as e:  # noqa
        signal.alarm(0)
        return dict(task=task.name, kind=task.kind, name=task.name, crashed=True,
                    errors=[dict(kind=type(e).__name__, msg=str(e), tb=traceback.format_exc(limit=10))],
                    wall_s=round(time.time() - t0, 3))


def load_known():
    p = os.path.join(VERIF, "known_findings.json")
    if not os.path.exists(p):
        return []
    return json.load(open(p)).get("findings", [])


def known_match(known, prop, task, clause):
    for k in known:
        if k.get("status") != "known" or k.get("property") != prop:
            continue
        if k.get("task") and not task.startswith(k["task"]):
            continue
        if k.get("clause") and k["clause"] != clause:
            continue
        return k
    return None


def replay_in_clean_interpreter(prop, task_name, values, timeout=120):
    """Runs the contract program of `task_name` on concrete `values` against the real code, no proxies/shims."""
    env = dict(os.environ, VF_CONCRETE="1", FRAME_REPO=REPO)
    payload = json.dumps(dict(property=prop, task=task_name, values=values))
    try:
        r = subprocess.run([sys.executable, "-m", "vf.replay", "--stdin"], input=payload, text=True,
                           capture_output=True, timeout=timeout, cwd=VERIF, env=env)
        out = r.stdout.strip().splitlines()
        res = json.loads(out[-1]) if out else dict(error=r.stderr[-2000:])
        return res
    except Exception as e:  # noqa
        return dict(error=f"{type(e).__name__}: {e}")


def run_property(prop, tier="quick", seed=0, level="proof", only=None, jobs=None, checker_cmd=None,
                 extra_trusted=(), explanation=None):
    t_start = time.time()
    os.environ["VERIF_TIER"] = tier
    os.environ["VERIF_SEED"] = str(seed)
    load_contracts(prop)
    import frame
    if not os.path.abspath(frame.__file__).startswith(os.path.abspath(REPO)):
        print(f"CHECKER-ERROR property={prop} the repository under check is {REPO} but frame was imported from {frame.__file__}")
        return 3
    tasks = REGISTRY.get(prop, [])
    sel = [i for i, t in enumerate(tasks)
           if (t.tier == "quick" or tier == "thorough") and (only is None or only in t.name)]
    if not sel:
        print(f"CHECKER-ERROR property={prop} no tasks registered")
        return 3
    jobs = jobs or min(16, len(sel), os.cpu_count() or 4)
    ctx = mp.get_context("fork")
    # longest budget first
    order = sorted(sel, key=lambda i: -tasks[i].budget_s)
    with ctx.Pool(jobs, maxtasksperchild=1) as pool:
        reports = pool.map(_run_task, [(prop, i, seed) for i in order], chunksize=1)
    by_name = {r["task"]: r for r in reports}
    known = load_known()

    total_vcs = discharged = 0
    bounded_evals = bounded_nontrivial = 0
    backends, solver_s, paths = {}, 0.0, 0
    violations, undecided, errors, known_hits = [], [], [], []
    canary_ok, canary_seen = True, False
    samples, functions, bounded_legs, task_rows = [], set(), [], []
    inapplicable = []
    scope_count = {}
    exhaustive_all = True

    for i in order:
        t = tasks[i]
        r = by_name[t.name]
        functions.update(t.functions)
        row = dict(task=t.name, kind=t.kind, scope=t.scope, wall_s=r.get("wall_s"))
        if t.leak_ok and r.get("errors") and all(e.get("kind") in ("ProxyLeak", "CutError", "ShapeError") for e in r["errors"]):
            inapplicable.append(dict(task=t.name, reason=r["errors"][0].get("msg", "")[:200]))
            r = dict(r, errors=[], obligations={}, inapplicable=True)
            by_name[t.name] = r
        if r.get("crashed") or r.get("errors"):
            errors.append(dict(task=t.name, errors=r.get("errors")))
        if t.kind == "sym":
            paths += r.get("paths", 0)
            row.update(paths=r.get("paths"), completed=r.get("paths_completed"), assumes_per_path=(r.get("notes") or {}).get("assumes_max_per_path"), crosscheck=(r.get("notes") or {}).get("crosscheck"),
                       covers=(r.get("notes") or {}).get("covers"))
            if r.get("budget_hit"):
                undecided.append(dict(task=t.name, reason="exploration budget exhausted"))
            if not r.get("crashed") and not r.get("errors") and not r.get("inapplicable"):
                base = t.name.split("#")[0]
                group_completed = sum(by_name[x.name].get("paths_completed", 0) for x in tasks
                                      if x.name.split("#")[0] == base and x.name in by_name)
                if group_completed == 0:
                    errors.append(dict(task=t.name, errors=[dict(kind="Vacuous", msg="no path reached the end of the contract program (contradictory precondition?)")]))
                if not r.get("obligations") and not t.shard:
                    errors.append(dict(task=t.name, errors=[dict(kind="Vacuous", msg="zero obligations generated")]))
            nv = 0
            for cname, ob in (r.get("obligations") or {}).items():
                if t.canary:
                    canary_seen = True
                    if ob["n_violations"] == 0:
                        canary_ok = False
                        errors.append(dict(task=t.name, errors=[dict(kind="CanaryNotRefuted", msg=cname)]))
                    continue
                nv += ob["vcs"]
                solver_s += ob["solver_s"]
                for b, c in ob["backend"].items():
                    backends[b] = backends.get(b, 0) + c
                k = known_match(known, prop, t.name, cname) if ob["n_violations"] else None
                if k:
                    known_hits.append((k, t.name, cname, ob))
                    # obligations of a known finding are not claimed: neither counted nor discharged
                    continue
                total_vcs += ob["vcs"]
                discharged += ob["discharged"]
                scope_count[t.scope] = scope_count.get(t.scope, 0) + ob["vcs"]
                if ob["n_violations"]:
                    violations.append(dict(task=t.name, clause=cname, witnesses=ob["violations"]))
                if ob["n_undecided"]:
                    undecided.append(dict(task=t.name, clause=cname, n=ob["n_undecided"]))
                if ob.get("sample") and len(samples) < 12:
                    samples.append(dict(obligation=f"{t.name}::{cname}", **ob["sample"]))
            row["vcs"] = nv
        else:
            ev, nt = r.get("evaluations", 0), r.get("distinct_nontrivial", 0)
            bounded_evals += ev
            bounded_nontrivial += nt
            exhaustive_all = exhaustive_all and bool(r.get("exhaustive"))
            bounded_legs.append(dict(task=t.name, kind=t.kind, evaluations=ev, distinct_nontrivial=nt,
                                     rule=r.get("rule", ""), exhaustive=bool(r.get("exhaustive")),
                                     bound=r.get("bound", t.scope), samples=r.get("samples", [])[:3],
                                     extra=r.get("extra", {})))
            row.update(evaluations=ev)
            if t.canary:
                canary_seen = True
                if not r.get("failures"):
                    canary_ok = False
                    errors.append(dict(task=t.name, errors=[dict(kind="CanaryNotRefuted", msg=t.name)]))
                continue
            if not r.get("crashed") and ev == 0:
                errors.append(dict(task=t.name, errors=[dict(kind="Vacuous", msg="bounded leg evaluated nothing")]))
            by_clause = {}
            for f in r.get("failures", []):
                by_clause.setdefault(f.get("clause", "bounded"), []).append(f)
            for clause, fs in by_clause.items():
                k = known_match(known, prop, t.name, clause)
                if k and k.get("observed_contains"):
                    # a finding identified by what is observed: only the failures that show it are the known finding, any other failure
                    # of the same clause is still a violation
                    mine = [f for f in fs if k["observed_contains"] in str(f.get("observed", ""))]
                    rest = [f for f in fs if f not in mine]
                    if mine:
                        known_hits.append((k, t.name, clause, mine[0]))
                    if rest:
                        violations.append(dict(task=t.name, clause=clause, bounded=True, witnesses=rest[:3]))
                elif k:
                    known_hits.append((k, t.name, clause, fs[0]))
                else:
                    violations.append(dict(task=t.name, clause=clause, bounded=True, witnesses=fs[:3]))
            for u in r.get("undecided", []):
                undecided.append(dict(task=t.name, clause=u))
        task_rows.append(row)

    # ---- verdict and output
    os.makedirs(os.path.join(OUT, "replays", prop), exist_ok=True)
    os.makedirs(os.path.join(OUT, "evidence"), exist_ok=True)
    printed = set()
    for k, tname, cname, ob in known_hits:
        key = (k.get("id") or k.get("what"))
        if key in printed:
            continue
        printed.add(key)
        print(f"KNOWN-FINDING: property={prop} {k.get('what')} [{tname}::{cname}]")
    viol_lines = []
    MAXV = int(os.environ.get('VF_MAX_VIOLATION_LINES', '8'))
    spurious = []
    replays_done = 0
    for v in list(violations):
        if len(viol_lines) >= MAXV or replays_done >= 60:
            break
        fname = (v["task"] + "__" + v["clause"]).replace("/", "_").replace(" ", "_").replace("[", "_").replace("]", "_").replace("=", "-").replace(",", "_")
        path = os.path.join(OUT, "replays", prop, fname[:150] + ".json")
        w = v["witnesses"][0]
        rec = dict(property=prop, task=v["task"], clause=v["clause"], tier=tier,
                   obligation=f"{v['task']}::{v['clause']}", witness=w, repo=REPO,
                   how_to_replay=f"cd {VERIF} && ./check {prop} --replay {path}")
        suffix = ""
        if v.get("bounded"):
            rec["replay"] = dict(reproduced=True, note="bounded leg: the failing input was found by running the real code")
        elif w.get("model") is not None:
            res = replay_in_clean_interpreter(prop, v["task"], w["model"])
            replays_done += 1
            rec["replay"] = res
            tried = [res]
            if not (res.get("failed") and (v["clause"] in res["failed"] or res.get("uncaught"))):
                # try the other witnesses
                ok = False
                for w2 in v["witnesses"][1:]:
                    if w2.get("model") is None:
                        continue
                    res2 = replay_in_clean_interpreter(prop, v["task"], w2["model"])
                    replays_done += 1
                    tried.append(res2)
                    if res2.get("failed") and v["clause"] in res2["failed"]:
                        rec["witness"], rec["replay"], ok = w2, res2, True
                        break
                if not ok:
                    # The solver's model did not fail on the real code.  If, for every model tried, the real code EVALUATED this very
                    # clause and it held (and no assumption was violated by the rounded input), the model is an artefact of the
                    # encoding (an uninterpreted symbol such as 2**n, acos or a purified quotient given an impossible value): the
                    # obligation is undecided, not violated.  A clause that the concrete run does not evaluate (it lives inside a
                    # contract stub) keeps its VIOLATION with the words no-failing-input-found.
                    if all(v["clause"] in (t_.get("passed") or []) and not t_.get("failed") and not t_.get("assume_failed") and not t_.get("uncaught")
                           for t_ in tried):
                        spurious.append(v)
                        rec["verdict"] = "undecided: the solver's model is not a behaviour of the real code (clause holds on it)"
                        json.dump(rec, open(path, "w"), indent=1, default=str)
                        continue
                    suffix = " no-failing-input-found"
        else:
            suffix = " no-failing-input-found"
            rec["replay"] = dict(note="solver gave no model (cvc5 verdict or concrete-false path)")
        rec["verifier_output"] = dict(goal=w.get("goal"), decisions=w.get("decisions"), model=w.get("model"))
        json.dump(rec, open(path, "w"), indent=1, default=str)
        viol_lines.append(f"VIOLATION property={prop} replay={path}{suffix}")
    for v in spurious:
        violations.remove(v)
        undecided.append(dict(task=v["task"], clause=v["clause"], n=1, reason="solver model does not reproduce: the clause holds on the real code for the model's input"))
    for ln in viol_lines:
        print(ln)
    if len(violations) > MAXV:
        print(f'... and {len(violations) - MAXV} more violated obligations of {prop} (listed in the evidence file)')

    wall = time.time() - t_start
    trusted = list(TRUSTED_COMMON) + list(extra_trusted)
    cov = dict(
        obligations=total_vcs, discharged=discharged,
        checker_cmd=checker_cmd or f"./check {prop} --tier {tier}",
        trusted_base=trusted,
        functions_under_contract=sorted(functions),
        by_backend=backends, solver_s=round(solver_s, 2), paths=paths,
        scope=scope_count, tasks=task_rows, samples=samples or [b for b in bounded_legs[:3]],
        undecided=undecided, canary_refuted=(canary_ok if canary_seen else None),
        bounded_legs=bounded_legs,
        known_findings=[dict(what=k.get("what"), task=t, clause=c) for k, t, c, _ in known_hits],
        checker_errors=errors, inapplicable_tasks=inapplicable,
        violated=[f"{v['task']}::{v['clause']}" for v in violations],
    )
    if bounded_legs:
        cov.update(evaluations=bounded_evals, distinct_nontrivial=bounded_nontrivial,
                   rule="; ".join(sorted({b["rule"] for b in bounded_legs if b["rule"]}))[:2000],
                   exhaustive=exhaustive_all)
    if explanation:
        cov["explanation"] = explanation
    ev = dict(property_id=prop, tier=tier, seed=seed, level=level, coverage=cov,
              assumptions=trusted, wall_s=round(wall, 2), violations=len(violations))
    # a run restricted with --only covers part of the property: it must not replace the evidence of a complete run
    evname = f"{prop}.json" if only is None else f".partial_{prop}.json"
    json.dump(ev, open(os.path.join(OUT, "evidence", evname), "w"), indent=1, default=str)

    status = 0
    if violations:
        status = 1
    elif errors:
        status = 3
        for e in errors[:5]:
            print(f"CHECKER-ERROR property={prop} task={e['task']} {json.dumps(e['errors'], default=str)[:600]}")
    elif undecided:
        status = 2
        for u in undecided[:5]:
            print(f"UNDECIDED property={prop} {json.dumps(u, default=str)[:300]}")
    print(f"[{prop}] tier={tier} tasks={len(sel)} paths={paths} obligations={total_vcs} discharged={discharged} "
          f"bounded_evals={bounded_evals} violations={len(violations)} known={len(printed)} undecided={len(undecided)} "
          f"errors={len(errors)} wall={wall:.1f}s exit={status}")
    return status
