import argparse
import json
import os
import subprocess
import sys

from vf import core


def main():
    ap = argparse.ArgumentParser()
    ap.add_argument("prop")
    ap.add_argument("--tier", default=os.environ.get("VERIF_TIER", "quick"), choices=["quick", "thorough"])
    ap.add_argument("--replay")
    ap.add_argument("--only")
    ap.add_argument("--jobs", type=int)
    a = ap.parse_args()
    if a.replay:
        env = dict(os.environ, VF_CONCRETE="1")
        r = subprocess.run([sys.executable, "-m", "vf.replay", a.replay], cwd=core.VERIF, env=env)
        return r.returncode
    seed = int(os.environ.get("VERIF_SEED", "0") or 0)
    man = json.load(open(os.path.join(core.VERIF, "MANIFEST.json")))
    level = "proof"
    for c in man.get("checks", []):
        if c["property_id"] == a.prop:
            level = c["level_claimed"]["category"]
    props = importlib_props()
    kw = props.get(a.prop, {})
    return core.run_property(a.prop, tier=a.tier, seed=seed, level=level, only=a.only, jobs=a.jobs, **kw)


def importlib_props():
    """Per-property extras (trusted base, explanation) declared by the contracts package."""
    try:
        from contracts import PROPS
        return PROPS
    except Exception:
        return {}


if __name__ == "__main__":
    sys.exit(main())
