"""
symx -- verification-condition generation by exhaustive symbolic execution of the REAL function objects
imported from /repo, with proxy numbers carrying z3 terms (see DESIGN.md section 2).

A *contract program* is a Python function  ob(S)  that
   1. declares symbolic inputs        S.real('x'), S.int('n'), S.choice('fixed', [False, True]) ...
   2. states the precondition         S.assume(cond)
   3. calls the real code             out = S.call(fn, *args)
   4. states postconditions           S.ensure('name', cond)
The Explorer re-executes the contract program once per feasible control-flow path of everything it calls
(depth-first, by decision prefix).  Each S.ensure on each path is one verification condition
      pre AND path-condition  =>  cond
discharged by z3 (exact non-linear real / integer arithmetic), falling back to cvc5.
The same program runs in *concrete* mode (plain floats/ints from a solver model) to replay counterexamples on
the real code without any proxy.
"""
from __future__ import annotations

import math
import os
import sys
import time
import traceback
from fractions import Fraction

import z3

sys.set_int_max_str_digits(0)      # solver models may carry rationals with thousands of digits

# ------------------------------------------------------------------------------------------------
# control-flow exceptions (BaseException so that `except Exception` in the code under test cannot eat them)


class Abort(BaseException):
    """Path abandoned (infeasible, or budget exceeded)."""


class Infeasible(Abort):
    pass


class Budget(Abort):
    pass


class NotMine(Abort):
    """The path belongs to another shard of the same task."""


class ProxyLeak(BaseException):
    """A proxy reached an operation the encoding does not model: checker error, never a verdict."""


CUR = None  # the active PathState (symbolic) or ConcreteState
RESETTERS = []  # callables restoring process-wide state of the code under test before every path (re-execution must be deterministic)
DELTA_MODE = False  # when True every real +,-,*,/ and sqrt result is exact*(1+delta), |delta| <= 2^-53


def modelled(exc):
    """Tag an exception that the encoding raises on purpose (it models what CPython would raise)."""
    exc._symx_modelled = True
    return exc


_VF_DIR = os.path.dirname(os.path.abspath(__file__))


def _raised_inside_checker(exc):
    """True when the innermost frame of the traceback is checker code (vf/) and the exception is not a modelled one:
    a bug of the encoding must never be taken for an outcome of the code under test."""
    if getattr(exc, "_symx_modelled", False):
        return False
    tb = exc.__traceback__
    last = None
    while tb is not None:
        last = tb
        tb = tb.tb_next
    return last is not None and os.path.abspath(last.tb_frame.f_code.co_filename).startswith(_VF_DIR)


def cur():
    if CUR is None:
        raise ProxyLeak("symbolic value used outside an exploration")
    return CUR


# ------------------------------------------------------------------------------------------------
# term helpers

def _frac_of_float(x: float) -> Fraction:
    if x != x or x in (float('inf'), float('-inf')):
        raise ProxyLeak(f"non-finite float {x!r} mixed with symbolic value")
    return Fraction(x)


def real_val(x) -> z3.ArithRef:
    if isinstance(x, bool):
        return z3.RealVal(int(x))
    if isinstance(x, int):
        return z3.RealVal(x)
    if isinstance(x, Fraction):
        return z3.RealVal(str(x.numerator)) / z3.RealVal(str(x.denominator)) if x.denominator != 1 \
            else z3.RealVal(str(x.numerator))
    if isinstance(x, float):
        f = _frac_of_float(x)
        return z3.Q(f.numerator, f.denominator)
    raise ProxyLeak(f"cannot lift {type(x).__name__} to a real term")


def is_sym(x) -> bool:
    return isinstance(x, (SymReal, SymInt, SymBool, SymEnum))


def term(x):
    """z3 term of a number-like Python value (proxy or concrete)."""
    if isinstance(x, (SymReal, SymInt, SymBool)):
        return x.t
    if isinstance(x, z3.ExprRef):
        return x
    if isinstance(x, bool):
        return z3.BoolVal(x)
    if isinstance(x, int):
        return z3.IntVal(x)
    return real_val(x)


def _arith_pair(a, b):
    ta, tb = term(a), term(b)
    if z3.is_bool(ta):
        ta = z3.If(ta, z3.IntVal(1), z3.IntVal(0))
    if z3.is_bool(tb):
        tb = z3.If(tb, z3.IntVal(1), z3.IntVal(0))
    if ta.sort() != tb.sort():
        if z3.is_int(ta):
            ta = z3.ToReal(ta)
        if z3.is_int(tb):
            tb = z3.ToReal(tb)
    return ta, tb


def wrap(t):
    """Wrap a z3 term into the matching proxy."""
    if z3.is_bool(t):
        return SymBool(t)
    if z3.is_int(t):
        return SymInt(t)
    return SymReal(t)


def _is_square(t):
    if z3.is_app_of(t, z3.Z3_OP_POWER):
        e = t.arg(1)
        return z3.is_rational_value(e) and e.as_fraction() == 2 or z3.is_int_value(e) and e.as_long() == 2
    if z3.is_mul(t):
        ch = t.children()
        consts = [c for c in ch if z3.is_rational_value(c) or z3.is_int_value(c)]
        rest = [c for c in ch if not (z3.is_rational_value(c) or z3.is_int_value(c))]
        if any(c.as_fraction() < 0 for c in consts):
            return False
        if len(rest) == 1:
            return _is_square(rest[0])
        return len(rest) == 2 and rest[0].eq(rest[1])
    return False


def is_sum_of_squares(t):
    """syntactically a sum of squares (with non-negative constant factors / summands): never negative"""
    t = z3.simplify(t)
    if z3.is_rational_value(t) or z3.is_int_value(t):
        return t.as_fraction() >= 0
    parts = t.children() if z3.is_add(t) else [t]
    return all(_is_square(p) or ((z3.is_rational_value(p) or z3.is_int_value(p)) and p.as_fraction() >= 0) for p in parts)


def _is_linear(t):
    """no product of two non-constant factors, no division by a non-constant, no uninterpreted function applications"""
    stack, seen = [t], set()
    while stack:
        x = stack.pop()
        if x.get_id() in seen:
            continue
        seen.add(x.get_id())
        if z3.is_mul(x):
            nonconst = [c for c in x.children() if not (z3.is_rational_value(c) or z3.is_int_value(c))]
            if len(nonconst) > 1:
                return False
        elif z3.is_app_of(x, z3.Z3_OP_POWER) or z3.is_app_of(x, z3.Z3_OP_DIV) or z3.is_app_of(x, z3.Z3_OP_IDIV) or z3.is_app_of(x, z3.Z3_OP_MOD):
            return False
        elif z3.is_app(x) and x.decl().kind() == z3.Z3_OP_UNINTERPRETED and x.num_args() > 0:
            return False
        stack.extend(x.children())
    return True


class Abstractor:
    """Linear abstraction of path conditions (DESIGN 2.2): every product of two non-constant terms becomes an application
    of an uninterpreted function umul(a, b) (arguments ordered, so commutative), with the sign / zero lemmas of that
    product.  The abstraction only removes information: a branch it refutes is really infeasible."""

    def __init__(self):
        self.cache = {}
        self.umul = z3.Function("umul", z3.RealSort(), z3.RealSort(), z3.RealSort())
        self.imul = z3.Function("imul", z3.IntSort(), z3.IntSort(), z3.IntSort())
        self.upow = z3.Function("upow", z3.RealSort(), z3.RealSort(), z3.RealSort())
        self.udiv = z3.Function("udiv", z3.RealSort(), z3.RealSort(), z3.RealSort())
        self.seen_products = set()

    def _const(self, c):
        return z3.is_rational_value(c) or z3.is_int_value(c) or z3.is_algebraic_value(c)

    def _prod(self, a, b, lemmas):
        if a.get_id() > b.get_id():
            a, b = b, a
        f = self.imul if z3.is_int(a) and z3.is_int(b) else self.umul
        if f is self.umul:
            a, b = to_real(a), to_real(b)
        m = f(a, b)
        key = m.get_id()
        if key not in self.seen_products:
            self.seen_products.add(key)
            lemmas.append(z3.Implies(z3.And(a > 0, b > 0), m > 0))
            lemmas.append(z3.Implies(z3.And(a < 0, b < 0), m > 0))
            lemmas.append(z3.Implies(z3.And(a > 0, b < 0), m < 0))
            lemmas.append(z3.Implies(z3.And(a < 0, b > 0), m < 0))
            lemmas.append(z3.Implies(z3.Or(a == 0, b == 0), m == 0))
            if a.eq(b):
                lemmas.append(m >= 0)
        return m

    def ab(self, t, lemmas):
        k = t.get_id()
        if k in self.cache:
            return self.cache[k]
        if z3.is_var(t) or (z3.is_app(t) and t.num_args() == 0):
            r = t
        elif z3.is_quantifier(t):
            r = z3.BoolVal(True)
        else:
            ch = [self.ab(c, lemmas) for c in t.children()]
            if z3.is_mul(t):
                consts = [c for c in ch if self._const(c)]
                rest = [c for c in ch if not self._const(c)]
                if len(rest) <= 1:
                    r = t.decl()(*ch) if len(ch) > 1 else ch[0]
                else:
                    m = rest[0]
                    for x in rest[1:]:
                        m = self._prod(m, x, lemmas)
                    r = m
                    for c in consts:
                        r = (to_real(c) if z3.is_real(r) else c) * r
            elif z3.is_app_of(t, z3.Z3_OP_POWER):
                if self._const(ch[1]) and ch[1].as_fraction() == 2:
                    r = self._prod(ch[0], ch[0], lemmas)
                else:
                    r = self.upow(to_real(ch[0]), to_real(ch[1]))
            elif z3.is_app_of(t, z3.Z3_OP_DIV) and not self._const(ch[1]):
                r = self.udiv(to_real(ch[0]), to_real(ch[1]))
            else:
                try:
                    r = t.decl()(*ch)
                except z3.Z3Exception:
                    r = t
        self.cache[k] = r
        return r


def to_real(t):
    return z3.ToReal(t) if z3.is_int(t) else t


def _num_ok(x):
    return isinstance(x, (int, float, Fraction)) and not isinstance(x, (SymReal, SymInt))


# ------------------------------------------------------------------------------------------------
# proxies

class _ArithMixin:
    """Shared arithmetic for SymReal / SymInt."""

    def _bin(self, other, op, swap=False):
        if not (is_sym(other) or _num_ok(other) or isinstance(other, bool)):
            return NotImplemented
        if isinstance(other, SymEnum):
            return NotImplemented
        a, b = _arith_pair(self, other)
        if swap:
            a, b = b, a
        r = op(a, b)
        if DELTA_MODE and z3.is_real(r):
            r = cur().delta(r)
        return wrap(z3.simplify(r))

    def __add__(self, o): return self._bin(o, lambda a, b: a + b)
    def __radd__(self, o): return self._bin(o, lambda a, b: a + b, True)
    def __sub__(self, o): return self._bin(o, lambda a, b: a - b)
    def __rsub__(self, o): return self._bin(o, lambda a, b: a - b, True)
    def __mul__(self, o): return self._bin(o, lambda a, b: a * b)
    def __rmul__(self, o): return self._bin(o, lambda a, b: a * b, True)

    def _div(self, num, den):
        tn, td = _arith_pair(num, den)
        tn, td = to_real(tn), to_real(td)
        zero = SymBool(z3.simplify(td == 0))
        if zero:  # forks: the ZeroDivisionError outcome is a path of its own
            raise modelled(ZeroDivisionError("float division by zero"))
        td_s = z3.simplify(td)
        if z3.is_rational_value(td_s) or z3.is_int_value(td_s):
            r = tn / td_s
        else:
            r = cur().quotient(tn, td_s)       # purified: fresh q with q * td = tn (td != 0 on this path)
        if DELTA_MODE:
            r = cur().delta(r)
        return SymReal(z3.simplify(r))

    def __truediv__(self, o):
        if not (is_sym(o) or _num_ok(o)):
            return NotImplemented
        return self._div(self, o)

    def __rtruediv__(self, o):
        if not (is_sym(o) or _num_ok(o)):
            return NotImplemented
        return self._div(o, self)

    def __neg__(self): return wrap(z3.simplify(-self.t))
    def __pos__(self): return self

    def __abs__(self):
        return wrap(z3.simplify(z3.If(self.t >= 0, self.t, -self.t)))

    def _cmp(self, o, op):
        if not (is_sym(o) or _num_ok(o) or isinstance(o, bool)):
            return NotImplemented
        if isinstance(o, SymEnum):
            return NotImplemented
        if isinstance(o, float) and not isinstance(o, SymReal) and o in (float("inf"), float("-inf")):
            return bool(op(0.0, o))            # every (finite) real compares with an infinity like 0 does
        a, b = _arith_pair(self, o)
        return SymBool(z3.simplify(op(a, b)))

    def __lt__(self, o): return self._cmp(o, lambda a, b: a < b)
    def __le__(self, o): return self._cmp(o, lambda a, b: a <= b)
    def __gt__(self, o): return self._cmp(o, lambda a, b: a > b)
    def __ge__(self, o): return self._cmp(o, lambda a, b: a >= b)

    def __eq__(self, o):
        r = self._cmp(o, lambda a, b: a == b)
        return False if r is NotImplemented else r

    def __ne__(self, o):
        r = self._cmp(o, lambda a, b: a != b)
        return True if r is NotImplemented else r

    def __hash__(self):
        return id(self)

    def __bool__(self):
        return bool(SymBool(z3.simplify(self.t != 0)))

    def __pow__(self, e, mod=None):
        if mod is not None:
            raise ProxyLeak("3-argument pow on a proxy")
        if isinstance(e, (SymReal, SymInt)):
            te = z3.simplify(e.t)
            if z3.is_rational_value(te) or z3.is_int_value(te):
                e = Fraction(te.as_fraction()) if not z3.is_int_value(te) else te.as_long()
            else:
                raise ProxyLeak("symbolic exponent")
        if e == 2:
            return self * self
        if e == 1:
            return self
        if e == 0.5:
            return cur().sqrt(self, complex_on_negative=True)
        if isinstance(e, int) and 2 < e <= 8:
            r = self
            for _ in range(e - 1):
                r = r * self
            return r
        raise ProxyLeak(f"unsupported exponent {e!r}")

    def __rpow__(self, base):
        if base == 2 and isinstance(self, SymInt):
            return cur().pow2(self)
        raise ProxyLeak(f"unsupported symbolic exponent with base {base!r}")

    def __repr__(self):
        return f"<{type(self).__name__} {self.t}>"

    __str__ = __repr__

    def __format__(self, spec):
        return repr(self)

    def __float__(self):
        raise ProxyLeak("float() of a proxy through the builtin (module not shimmed)")

    def __round__(self, n=None):
        raise ProxyLeak("round() of a proxy")

    def __trunc__(self):
        raise ProxyLeak("trunc() of a proxy")

    def __floor__(self):
        raise ProxyLeak("floor() of a proxy")

    def __ceil__(self):
        raise ProxyLeak("ceil() of a proxy")


def _unmodelled(opname):
    def op(self, *a, **k):
        raise ProxyLeak(f"operator {opname} on a proxy is not modelled (its raw value would be used silently)")
    return op


class SymReal(_ArithMixin, float):
    def __new__(cls, t):
        o = float.__new__(cls, float('nan'))
        o.t = t
        return o

    for _n in ("__floordiv__", "__rfloordiv__", "__mod__", "__rmod__", "__divmod__", "__rdivmod__", "is_integer", "as_integer_ratio", "hex"):
        locals()[_n] = _unmodelled(_n)
    del _n

    def __int__(self):
        raise ProxyLeak("int() of a real proxy through the builtin")


class SymInt(_ArithMixin):
    """NOT a subclass of int: CPython reads the raw value of int subclasses without calling __index__ (range, list
    indexing, slicing, struct, ...), which would silently use a placeholder.  As a plain object every such use goes
    through __index__ / __int__ below and is a checker error; isinstance(x, int) inside repository modules is answered
    by the int shim's metaclass."""

    def __init__(self, t):
        self.t = t

    for _n in ("__lshift__", "__rlshift__", "__rshift__", "__rrshift__", "__and__", "__rand__", "__or__", "__ror__", "__xor__", "__rxor__",
               "__invert__", "__divmod__", "__rdivmod__", "__rfloordiv__", "__rmod__", "bit_length", "to_bytes"):
        locals()[_n] = _unmodelled(_n)
    del _n

    def __int__(self):
        raise ProxyLeak("int() of an int proxy through the builtin (module not shimmed)")

    def __index__(self):
        raise ProxyLeak("symbolic integer used as an index / range bound")

    def __floordiv__(self, o):
        a, b = _arith_pair(self, o)
        if z3.is_int(a) and z3.is_int(b):
            if SymBool(z3.simplify(b == 0)):
                raise modelled(ZeroDivisionError("integer division or modulo by zero"))
            # Python floors; z3 div is euclidean: they agree for b > 0
            if not SymBool(z3.simplify(b > 0)):
                raise ProxyLeak("floor division by a possibly negative symbolic integer")
            return SymInt(z3.simplify(a / b))
        raise ProxyLeak("floor division on reals")

    def __mod__(self, o):
        a, b = _arith_pair(self, o)
        if z3.is_int(a) and z3.is_int(b):
            if SymBool(z3.simplify(b == 0)):
                raise modelled(ZeroDivisionError("integer division or modulo by zero"))
            if not SymBool(z3.simplify(b > 0)):
                raise ProxyLeak("modulo by a possibly negative symbolic integer")
            return SymInt(z3.simplify(a % b))
        raise ProxyLeak("modulo on reals")


class SymBool:
    """Symbolic truth value; bool(.) asks the explorer for a decision (a fork point)."""

    def __init__(self, t):
        self.t = t

    def __bool__(self):
        t = self.t
        if z3.is_true(t):
            return True
        if z3.is_false(t):
            return False
        return cur().decide(t)

    def __and__(self, o): return SymBool(z3.simplify(z3.And(self.t, term(o))))
    __rand__ = __and__
    def __or__(self, o): return SymBool(z3.simplify(z3.Or(self.t, term(o))))
    __ror__ = __or__
    def __invert__(self): return SymBool(z3.simplify(z3.Not(self.t)))

    def __eq__(self, o):
        if isinstance(o, (SymBool, bool)):
            return SymBool(z3.simplify(self.t == term(o)))
        return False

    def __ne__(self, o):
        if isinstance(o, (SymBool, bool)):
            return SymBool(z3.simplify(self.t != term(o)))
        return True

    def __hash__(self): return id(self)
    def __repr__(self): return f"<SymBool {self.t}>"


class SymEnum:
    """A symbolic member of a Python Enum: z3 Int term = index in `members`."""

    def __init__(self, enum_cls, t):
        self.enum_cls = enum_cls
        self.members = list(enum_cls)
        self.t = t

    def _idx(self, m):
        return self.members.index(m)

    def __eq__(self, o):
        if isinstance(o, SymEnum):
            return SymBool(z3.simplify(self.t == o.t))
        if isinstance(o, self.enum_cls):
            return SymBool(z3.simplify(self.t == self._idx(o)))
        return False

    def __ne__(self, o):
        r = self.__eq__(o)
        return ~r if isinstance(r, SymBool) else True

    def __hash__(self): return id(self)
    def __repr__(self): return f"<SymEnum {self.enum_cls.__name__} {self.t}>"

    def concretize(self):
        """Fork on the value; returns the real Enum member."""
        for i, m in enumerate(self.members[:-1]):
            if SymBool(z3.simplify(self.t == i)):
                return m
        return self.members[-1]


def enum_term(enum_cls, v):
    """Int term for an enum value that is either concrete or a SymEnum."""
    if isinstance(v, SymEnum):
        return v.t
    return z3.IntVal(list(enum_cls).index(v))


# ------------------------------------------------------------------------------------------------
# polymorphic spec helpers (symbolic -> z3 terms, concrete -> Python values)

def smax(*xs):
    if len(xs) == 1:
        if not isinstance(xs[0], (list, tuple)):
            return xs[0]
        xs = tuple(xs[0])
    if not any(is_sym(x) for x in xs):
        return max(xs)
    r = xs[0]
    for x in xs[1:]:
        a, b = _arith_pair(r, x)
        r = wrap(z3.simplify(z3.If(a >= b, a, b)))
    return r


def smin(*xs):
    if len(xs) == 1:
        if not isinstance(xs[0], (list, tuple)):
            return xs[0]
        xs = tuple(xs[0])
    if not any(is_sym(x) for x in xs):
        return min(xs)
    r = xs[0]
    for x in xs[1:]:
        a, b = _arith_pair(r, x)
        r = wrap(z3.simplify(z3.If(a <= b, a, b)))
    return r


def sabs(x):
    return abs(x)


def _b(x):
    """z3 Bool of a truth value."""
    if isinstance(x, SymBool):
        return x.t
    if isinstance(x, z3.ExprRef):
        return x
    return z3.BoolVal(bool(x))


def sand(*xs):
    if not any(isinstance(x, (SymBool, z3.ExprRef)) for x in xs):
        return all(xs)
    return SymBool(z3.simplify(z3.And(*[_b(x) for x in xs])))


def sor(*xs):
    if not any(isinstance(x, (SymBool, z3.ExprRef)) for x in xs):
        return any(xs)
    return SymBool(z3.simplify(z3.Or(*[_b(x) for x in xs])))


def snot(x):
    if isinstance(x, (SymBool, z3.ExprRef)):
        return SymBool(z3.simplify(z3.Not(_b(x))))
    return not x


def simplies(a, b):
    return sor(snot(a), b)


def siff(a, b):
    if not any(isinstance(x, (SymBool, z3.ExprRef)) for x in (a, b)):
        return bool(a) == bool(b)
    return SymBool(z3.simplify(_b(a) == _b(b)))


def sif(c, a, b):
    """If-then-else on values (numbers or truth values)."""
    if not isinstance(c, (SymBool, z3.ExprRef)):
        return a if c else b
    if isinstance(a, (SymBool, bool)) and isinstance(b, (SymBool, bool)):
        return SymBool(z3.simplify(z3.If(_b(c), _b(a), _b(b))))
    ta, tb = _arith_pair(a, b)
    return wrap(z3.simplify(z3.If(_b(c), ta, tb)))


CONC_RTOL = 1e-9


def seq(a, b, scale=None):
    """Equality of numbers: exact when symbolic; within CONC_RTOL*scale when both are concrete floats."""
    if is_sym(a) or is_sym(b):
        ta, tb = _arith_pair(a, b)
        return SymBool(z3.simplify(ta == tb))
    if isinstance(a, (int, Fraction)) and isinstance(b, (int, Fraction)):
        return a == b
    s = scale if scale is not None else max(abs(a), abs(b), 1e-3)      # absolute floor: models have O(1) coordinates
    return abs(a - b) <= CONC_RTOL * s


def sle(a, b, scale=None):
    """a <= b; concrete floats get the replay tolerance."""
    if is_sym(a) or is_sym(b):
        return a <= b if is_sym(a) else b >= a
    s = scale if scale is not None else max(abs(a), abs(b), 1e-300)
    return a <= b + CONC_RTOL * s


def ssum(xs):
    r = 0
    for x in xs:
        r = r + x
    return r


# ------------------------------------------------------------------------------------------------
# result bookkeeping

class ObResult:
    def __init__(self, name):
        self.name = name
        self.vcs = 0            # path obligations generated
        self.discharged = 0
        self.undecided = []     # [(reason)]
        self.violations = []    # [dict(model=..., choices=..., path=...)]
        self.backend = {}       # backend -> count
        self.solver_s = 0.0
        self.sample = None

    def to_dict(self):
        return dict(name=self.name, vcs=self.vcs, discharged=self.discharged,
                    undecided=self.undecided[:5], n_undecided=len(self.undecided),
                    violations=self.violations[:3], n_violations=len(self.violations),
                    backend=self.backend, solver_s=round(self.solver_s, 3), sample=self.sample)


class Report:
    """Everything one contract program produced over all its paths."""

    def __init__(self, name):
        self.name = name
        self.paths = 0
        self.paths_completed = 0    # reached the end of the contract program with a satisfiable pc
        self.aborted = 0
        self.infeasible = 0
        self.obs: dict[str, ObResult] = {}
        self.errors = []            # checker errors (ProxyLeak, unexpected exceptions in the contract code)
        self.wall_s = 0.0
        self.decisions = 0
        self.solver_calls = 0
        self.budget_hit = False
        self.notes = {}

    def ob(self, name) -> ObResult:
        if name not in self.obs:
            self.obs[name] = ObResult(name)
        return self.obs[name]

    def to_dict(self):
        return dict(name=self.name, paths=self.paths, paths_completed=self.paths_completed,
                    aborted=self.aborted, infeasible=self.infeasible, errors=self.errors[:5],
                    wall_s=round(self.wall_s, 3), decisions=self.decisions, solver_calls=self.solver_calls,
                    budget_hit=self.budget_hit, notes=self.notes,
                    obligations={k: v.to_dict() for k, v in self.obs.items()})


class Outcome:
    """Result of S.call: either a value or an exception raised by the code under test."""

    def __init__(self, value=None, exc=None):
        self.value = value
        self.exc = exc

    @property
    def ok(self):
        return self.exc is None

    def raised(self, *types):
        return self.exc is not None and (not types or isinstance(self.exc, types))

    def __repr__(self):
        return f"Outcome(value={self.value!r}, exc={self.exc!r})"


# ------------------------------------------------------------------------------------------------
# solving

FEAS_TIMEOUT_MS = int(os.environ.get("SYMX_FEAS_MS", "2000"))
VC_TIMEOUT_MS = int(os.environ.get("SYMX_VC_MS", "30000"))


def _model_value(m, t):
    v = m.eval(t, model_completion=True)
    if z3.is_int_value(v):
        return int(v.as_long())
    if z3.is_rational_value(v):
        return Fraction(v.numerator_as_long(), v.denominator_as_long())
    if z3.is_true(v):
        return True
    if z3.is_false(v):
        return False
    if z3.is_algebraic_value(v):
        a = v.approx(30)
        return Fraction(a.numerator_as_long(), a.denominator_as_long())
    return str(v)


def solve_exact(assertions, timeout_ms=VC_TIMEOUT_MS, want_model=True):
    """Decide satisfiability of a conjunction with a fresh solver portfolio: z3's default solver and the nlsat tactic
    alternate with growing budgets (solver run times on non-linear queries are heavy-tailed: a short attempt of the other
    engine often beats a long attempt of the first), then cvc5.  Returns (verdict, model_or_None, backend, seconds)."""
    t0 = time.time()

    def default(ms):
        s = z3.Solver()
        s.set("timeout", ms)
        s.add(*assertions)
        return s, s.check()

    def nlsat(ms):
        s2 = z3.Then(z3.Tactic("simplify"), z3.Tactic("purify-arith"), z3.Tactic("qfnra-nlsat")).solver()
        s2.set("timeout", ms)
        s2.add(*assertions)
        return s2, s2.check()
    def default_som(ms):
        # polynomial identities hidden behind purified quotients (q * den = num) become linear over the monomials once
        # every assertion is expanded into a sum of monomials
        s3 = z3.Solver()
        s3.set("timeout", ms)
        s3.add(*[z3.simplify(a, som=True) for a in assertions])
        return s3, s3.check()
    smt2 = None
    for frac, engine, name in ((24, default, "z3"), (24, nlsat, "z3-nlsat"), (4, default_som, "z3-som"), (3, default, "z3"), (3, nlsat, "z3-nlsat")):
        try:
            s, r = engine(max(500, timeout_ms // frac))
        except z3.Z3Exception:
            continue
        if smt2 is None and name == "z3":
            smt2 = s.to_smt2()
        if r != z3.unknown:
            return (str(r), s.model() if r == z3.sat and want_model else None, name, time.time() - t0)
    if smt2 is not None:
        v = cvc5_check(smt2, max(1000, timeout_ms // 4))
        if v in ("sat", "unsat"):
            return (v, None, "cvc5", time.time() - t0)
    dump = os.environ.get("VF_DUMP_UNKNOWN")
    if dump and smt2 is not None:       # debugging aid: keep the query no engine decided
        os.makedirs(dump, exist_ok=True)
        with open(os.path.join(dump, f"unknown_{os.getpid()}_{int(time.time() * 1000) % 10 ** 8}.smt2"), "w") as f:
            f.write(smt2)
    return ("unknown", None, "none", time.time() - t0)


def cvc5_check(smt2: str, timeout_ms: int) -> str:
    """cvc5 as a separate process (hard time limit: its in-process time limit is not always honoured in nl-cov)."""
    import subprocess
    import tempfile
    try:
        with tempfile.NamedTemporaryFile("w", suffix=".smt2", delete=False) as f:
            f.write("(set-logic ALL)\n" + smt2)
            name = f.name
        try:
            r = subprocess.run(["/usr/bin/cvc5", f"--tlimit={timeout_ms}", "--nl-cov", name], capture_output=True,
                               text=True, timeout=timeout_ms / 1000 + 3)
            out = r.stdout.strip().splitlines()
            return out[-1] if out and out[-1] in ("sat", "unsat") else "unknown"
        finally:
            os.unlink(name)
    except Exception:  # noqa
        return "unknown"


# ------------------------------------------------------------------------------------------------
# symbolic path state

class PathState:
    mode = "sym"

    def __init__(self, explorer, prefix):
        self.ex = explorer
        self.prefix = prefix
        self.decisions = []          # bools taken so far
        self.branches = []           # the subset taken at real branch points (both outcomes feasible)
        self.trail = []              # (choice, was_branch_point) per decision: the replayable prefix
        self.pc = []                 # z3 Bool terms (assumptions + decisions)
        self.inputs = {}             # name -> z3 const (declared inputs, for models)
        self.choices = {}            # name -> chosen python value index
        self.solver = z3.Solver()
        self.solver.set("timeout", FEAS_TIMEOUT_MS)
        self.lin = z3.Solver()      # linear abstraction of the path condition (products purified): fast feasibility
        self.lin.set("timeout", FEAS_TIMEOUT_MS)
        self.abst = Abstractor()
        self.fresh_n = 0
        self._sqrt_cache = {}
        self._div_cache = {}
        self._cleanups = []
        self.n_assumes = 0           # preconditions / stub postconditions assumed on this path (reported in the evidence)
        self.results = []            # buffered ensure results, committed by the explorer if this shard owns the path
        self.covers = []

    # ---- inputs
    def real(self, name, pos=False, nonneg=False):
        c = z3.Real(name)
        self.inputs[name] = c
        v = SymReal(c)
        if pos:
            self.assume(v > 0)
        if nonneg:
            self.assume(v >= 0)
        return v

    def int(self, name, lo=None, hi=None):
        c = z3.Int(name)
        self.inputs[name] = c
        v = SymInt(c)
        if lo is not None:
            self.assume(v >= lo)
        if hi is not None:
            self.assume(v <= hi)
        return v

    def symbool(self, name):
        c = z3.Bool(name)
        self.inputs[name] = c
        return SymBool(c)

    def bool(self, name):
        """A concrete Python bool, both values explored."""
        return bool(self.symbool(name))

    def choice(self, name, options):
        """One of `options` (concrete Python values), all explored."""
        options = list(options)
        if len(options) == 1:
            return options[0]
        c = z3.Int(name)
        self.inputs[name] = c
        self.assume(SymBool(z3.And(c >= 0, c < len(options))))
        for i, o in enumerate(options[:-1]):
            if bool(SymBool(c == i)):
                return o
        return options[-1]

    def fresh_real(self, hint="f"):
        self.fresh_n += 1
        return SymReal(z3.Real(f"{hint}!{self.fresh_n}"))

    def fresh_int(self, hint="i"):
        self.fresh_n += 1
        return SymInt(z3.Int(f"{hint}!{self.fresh_n}"))

    def fresh_bool(self, hint="b"):
        self.fresh_n += 1
        return SymBool(z3.Bool(f"{hint}!{self.fresh_n}"))

    # ---- math
    def sqrt(self, x, complex_on_negative=False):
        tx = to_real(term(x))
        key = z3.simplify(tx, som=True, sort_sums=True).sexpr()     # canonical polynomial form: sqrt((a-b)^2) and sqrt((b-a)^2) share a symbol
        if key not in self._sqrt_cache:
            self.fresh_n += 1
            s = z3.Real(f"sqrt!{self.fresh_n}")
            self._sqrt_cache[key] = s
        s = self._sqrt_cache[key]
        if not is_sum_of_squares(tx) and bool(SymBool(z3.simplify(tx < 0))):
            if complex_on_negative:
                raise ProxyLeak("x ** 0.5 with x < 0 feasible (complex result)")
            raise modelled(ValueError("math domain error"))
        self._add(z3.And(s >= 0, s * s == tx))
        if DELTA_MODE:
            return SymReal(z3.simplify(self.delta(s)))
        return SymReal(s)

    def quotient(self, tn, td):
        key = (z3.simplify(tn, som=True, sort_sums=True).sexpr(), z3.simplify(td, som=True, sort_sums=True).sexpr())
        if key not in self._div_cache:
            self.fresh_n += 1
            q = z3.Real(f"quot!{self.fresh_n}")
            self._div_cache[key] = q
            self._add(q * td == tn)
        return self._div_cache[key]

    PI_UB = Fraction(3141592653589794, 10**15)   # a rational just above pi

    def acos(self, x):
        """acos as an uninterpreted function with its range axiom; raises ValueError outside [-1, 1] (domain obligation)."""
        tx = z3.simplify(to_real(term(x)))
        if bool(SymBool(z3.simplify(z3.Or(tx < -1, tx > 1)))):
            raise modelled(ValueError("math domain error"))
        f = z3.Function("acos", z3.RealSort(), z3.RealSort())
        a = f(tx)
        self._add(z3.And(a >= 0, a <= real_val(self.PI_UB)))
        self._add(z3.Implies(tx == 1, a == 0))
        return SymReal(a)

    def sin(self, v):
        tv = to_real(term(v))
        if z3.is_app(tv) and tv.decl().name() == "acos":
            x0 = tv.arg(0)                       # sin(acos x) = sqrt(1 - x^2), -1 <= x <= 1 known: sin never raises
            tx = z3.simplify(1 - x0 * x0)
            key = z3.simplify(tx, som=True, sort_sums=True).sexpr()
            if key not in self._sqrt_cache:
                self.fresh_n += 1
                self._sqrt_cache[key] = z3.Real(f"sqrt!{self.fresh_n}")
            sq = self._sqrt_cache[key]
            self._add(z3.And(sq >= 0, sq * sq == tx))
            return SymReal(z3.simplify(self.delta(sq))) if DELTA_MODE else SymReal(sq)
        f = z3.Function("sin", z3.RealSort(), z3.RealSort())
        r = f(tv)
        self._add(z3.And(r >= -1, r <= 1))
        return SymReal(r)

    def cos(self, v):
        tv = to_real(term(v))
        if z3.is_app(tv) and tv.decl().name() == "acos":
            return SymReal(tv.arg(0))
        f = z3.Function("cos", z3.RealSort(), z3.RealSort())
        r = f(tv)
        self._add(z3.And(r >= -1, r <= 1))
        return SymReal(r)

    def delta(self, t):
        """delta-mode: the IEEE-754 standard model  fl(x) = x * m,  |m - 1| <= 2^-53  (no under/overflow).
        The rounded value is a fresh symbol r = x*m together with the (redundant) sign facts, which keep the
        sign reasoning linear for the solver."""
        self.fresh_n += 1
        m = z3.Real(f"ulpf!{self.fresh_n}")
        r = z3.Real(f"fl!{self.fresh_n}")
        u = z3.Q(1, 2 ** 53)
        self._add(z3.And(m >= 1 - u, m <= 1 + u))
        self._add(r == t * m)
        self._add(z3.And((r > 0) == (t > 0), (r < 0) == (t < 0)))
        return r

    def pow2(self, n):
        f = z3.Function("pow2", z3.IntSort(), z3.IntSort())
        tn = term(n)
        r = f(tn)
        # hand-instantiated axioms (never a quantifier in the path solver)
        self._add(z3.Implies(tn >= 0, r >= 1))
        self._add(z3.Implies(tn == 0, r == 1))
        self._add(z3.Implies(tn >= 1, r == 2 * f(tn - 1)))
        self._add(z3.Implies(tn >= 1, f(tn - 1) >= 1))
        # the function is pinned on small arguments: a path that fixes n to a constant (an unrolled recursion) must not admit a
        # spurious model of pow2 (seen with a refactoring that moved the recursion of _split_allocation into a nested helper)
        for k in range(0, 11):
            self._add(z3.Implies(tn == k, r == 2 ** k))
        return SymInt(r)

    # ---- path condition
    def _add(self, t):
        self.pc.append(t)
        self.solver.add(t)
        lem = []
        at = self.abst.ab(t, lem)
        self.lin.add(at)
        for l_ in lem:
            self.lin.add(l_)

    def assume(self, cond):
        t = _b(cond)
        self.n_assumes += 1
        self._add(t)

    def _check(self, *extra):
        self.ex.report.solver_calls += 1
        r = self.solver.check(*extra)
        return r

    def decide(self, t):
        ex = self.ex
        i = len(self.decisions)
        branched = False
        if i < len(self.prefix):
            choice, branched = self.prefix[i]
        else:
            ex.report.decisions += 1
            if ex.deadline and time.time() > ex.deadline:
                ex.report.budget_hit = True
                raise Budget()
            # feasibility in the linear abstraction first (fast, over-approximating: a refuted branch is infeasible) ...
            lem = []
            at = self.abst.ab(t, lem)
            for l_ in lem:
                self.lin.add(l_)
            ex.report.solver_calls += 2
            rt = self.lin.check(at)
            rf = self.lin.check(z3.Not(at))
            # ... then, only when both survive, the exact path condition with a short budget (`unknown` = feasible)
            if rt != z3.unsat and rf != z3.unsat and ex.exact_feas_ms > 0:
                self.solver.set("timeout", ex.exact_feas_ms)
                if self._check(t) == z3.unsat:
                    rt = z3.unsat
                elif self._check(z3.Not(t)) == z3.unsat:
                    rf = z3.unsat
                self.solver.set("timeout", FEAS_TIMEOUT_MS)
            ft, ff = rt != z3.unsat, rf != z3.unsat
            if not ft and not ff:
                raise Infeasible()
            if ft and ff:
                choice, branched = True, True
                ex.push_alternative(self.trail + [(False, True)])
            else:
                choice = ft
        self.decisions.append(choice)
        self.trail.append((choice, branched))
        self._add(t if choice else z3.Not(t))
        if branched:
            self.branches.append(choice)
            if ex.shard and len(self.branches) == ex.shard[2] and not ex.owns(self.branches):
                raise NotMine()
        return choice

    # ---- calling code under test
    def call(self, fn, *args, **kwargs):
        try:
            return Outcome(value=fn(*args, **kwargs))
        except (Abort, ProxyLeak):
            raise
        except Exception as e:  # noqa: the code under test may raise anything; it is an outcome
            if _raised_inside_checker(e):
                raise ProxyLeak(f"exception raised by the encoding itself: {type(e).__name__}: {e}\n" + traceback.format_exc(limit=8))
            e._symx_tb = traceback.format_exc(limit=6)
            return Outcome(exc=e)

    def patch(self, obj, attr, new):
        old = obj.__dict__.get(attr, _MISSING) if isinstance(obj, type) else getattr(obj, attr, _MISSING)
        had_own = attr in getattr(obj, '__dict__', {})
        self._cleanups.append((obj, attr, old, had_own))
        setattr(obj, attr, new)

    def cleanup(self):
        for obj, attr, old, had_own in reversed(self._cleanups):
            if had_own and old is not _MISSING:
                setattr(obj, attr, old)
            else:
                try:
                    delattr(obj, attr)
                except AttributeError:
                    pass
        self._cleanups.clear()

    # ---- obligations
    def ensure(self, name, cond, note=None):
        t0 = time.time()
        model = None
        if not isinstance(cond, (SymBool, z3.ExprRef)):
            # concrete truth value on this path
            if cond:
                self.results.append((name, "unsat", "concrete", 0.0, None, None))
                return True
            # false on a path: violation iff the path is feasible
            verdict, model, backend, secs = self._final_check([])
        else:
            neg = z3.Not(_b(cond))
            self.solver.push()
            self.solver.add(neg)
            r = self._check()
            model = self.solver.model() if r == z3.sat else None
            self.solver.pop()
            verdict, backend = str(r), "z3-inc"
            if r == z3.unknown:
                verdict, model, backend, _ = solve_exact(self.pc + [neg], self.ex.vc_timeout_ms)
        sample = viol = None
        need_sample = name not in self.ex.report.obs or self.ex.report.obs[name].sample is None
        if need_sample or verdict == "sat":
            g = cond.t if isinstance(cond, SymBool) else cond
            goal = g.sexpr() if isinstance(g, z3.ExprRef) else str(g)
            goal = " ".join(goal.split())
            if need_sample:
                sample = dict(pc_size=len(self.pc), verdict=verdict, goal=goal[:300])
            if verdict == "sat":
                viol = dict(model=self._model_dict(model), decisions=list(self.decisions), note=note, goal=goal[:600])
        self.results.append((name, verdict, backend, time.time() - t0, viol, sample))
        return True if verdict == "unsat" else (False if verdict == "sat" else None)

    def ensure_closed(self, name, hyps, goal, note=None):
        """A self-contained obligation  AND(hyps) => goal  discharged in a fresh solver (the path condition is NOT used):
        keeps the query small when the path condition holds many irrelevant facts."""
        t0 = time.time()
        hs = [_b(h) for h in hyps]
        verdict, model, backend, _ = solve_exact(hs + [z3.Not(_b(goal))], self.ex.vc_timeout_ms)
        sample = viol = None
        need_sample = name not in self.ex.report.obs or self.ex.report.obs[name].sample is None
        if need_sample or verdict == "sat":
            gtxt = " ".join(_b(goal).sexpr().split())
            if need_sample:
                sample = dict(pc_size=len(hs), verdict=verdict, goal=gtxt[:300], closed=True)
            if verdict == "sat":
                viol = dict(model=self._model_dict(model), decisions=list(self.decisions), note=note, goal=gtxt[:600])
        self.results.append((name, verdict, backend, time.time() - t0, viol, sample))
        return True if verdict == "unsat" else (False if verdict == "sat" else None)

    def lemma(self, name, cond):
        """Ghost lemma: proved as an obligation under the current path condition, then available as a hypothesis."""
        r = self.ensure(name, cond)
        if r is True:
            self.assume(cond)
        return r

    def _final_check(self, extra):
        if extra:
            return solve_exact(self.pc + extra, self.ex.vc_timeout_ms)
        key = len(self.pc)              # the path condition only grows: same length = same query
        hit = getattr(self, "_final_cache", None)
        if hit is None or hit[0] != key:
            self._final_cache = hit = (key, solve_exact(self.pc, self.ex.vc_timeout_ms))
            return hit[1]
        v, m, b, _ = hit[1]
        return v, m, b + "-cached", 0.0

    def _model_dict(self, model):
        if model is None:
            return None
        d = {}
        for name, c in self.inputs.items():
            v = _model_value(model, c)
            d[name] = str(v) if isinstance(v, Fraction) else v
        return d

    def feasible(self):
        """end-of-path reachability marker (vacuity guard): decided in the linear abstraction; `unknown` counts as reachable"""
        return self.lin.check() != z3.unsat

    def note(self, key, value):
        pass

    def cover(self, name):
        """Reachability marker: counted per contract; zero covers = vacuous contract (checker error)."""
        self.covers.append(name)


_MISSING = object()


class Explorer:
    def __init__(self, program, name=None, budget_s=None, max_paths=None, vc_timeout_ms=VC_TIMEOUT_MS, shard=None,
                 exact_feas_ms=300, crosscheck_paths=2):
        self.program = program
        self.exact_feas_ms = exact_feas_ms
        self.crosscheck_paths = crosscheck_paths
        self.shard = shard          # (j, m, k): this explorer owns the paths whose first k decisions hash to j mod m
        self.report = Report(name or getattr(program, "__name__", "contract"))
        self.stack = []
        self.deadline = time.time() + budget_s if budget_s else None
        self.max_paths = max_paths
        self.vc_timeout_ms = vc_timeout_ms

    def push_alternative(self, prefix):
        self.stack.append(prefix)

    def owns(self, decisions):
        if not self.shard:
            return True
        j, m, k = self.shard
        if len(decisions) < k:
            return j == 0
        h = 0
        for d in decisions[:k]:
            h = (h * 2 + (1 if d else 0)) % 1000003
        return (h * 2654435761 % 4294967296) % m == j

    def crosscheck(self, st):
        """CPython cross-check of the encoding: for the first few completed paths a model of the exact path condition is
        run through the same contract program in CONCRETE mode (real code, no proxies).  Every clause that was discharged on
        that path must also hold concretely; a disagreement is an unsoundness of the encoding (or a contract whose concrete
        tolerance is too tight) and is reported as a checker error, never as a verdict."""
        global CUR
        rep = self.report
        done = rep.notes.setdefault("crosscheck", dict(paths=0, agreed=0, skipped=0))
        if done["paths"] + done["skipped"] >= self.crosscheck_paths:
            return
        if any(v != "unsat" for (_, v, _, _, _, _) in st.results):
            return          # only paths on which everything was discharged are compared
        st.solver.set("timeout", 1500)
        # small integers first (levels, depths, counts): the concrete run then stays small and well conditioned
        small = [z3.And(c >= -3, c <= 3) for c in st.inputs.values() if z3.is_int(c)]
        r = st.solver.check(*small) if small else z3.unknown
        if r != z3.sat:
            r = st.solver.check()
        if r != z3.sat:
            st.solver.set("timeout", FEAS_TIMEOUT_MS)
            done["skipped"] += 1
            return
        model = st.solver.model()
        # prefer a model whose numeric inputs are small dyadic rationals (exactly representable doubles: the concrete run then
        # computes what the real-number semantics computes, except for divisions by non-powers of two)
        values = None
        for denom in (8, 64, 1024):
            eqs, cand = [], {}
            for name, c in st.inputs.items():
                v = _model_value(model, c)
                if isinstance(v, Fraction) or (isinstance(v, int) and not isinstance(v, bool) and z3.is_real(c)):
                    q = Fraction(round(Fraction(v) * denom), denom)
                    eqs.append(c == real_val(q))
                    cand[name] = str(q)
                else:
                    eqs.append(c == (z3.BoolVal(v) if isinstance(v, bool) else v))
                    cand[name] = v
            if st.solver.check(*eqs) == z3.sat:
                values = cand
                break
        st.solver.set("timeout", FEAS_TIMEOUT_MS)
        if values is None:
            done["skipped"] += 1
            return
        st.cleanup()
        saved = CUR
        try:
            cs = run_concrete(self.program, values)
        except (Abort, ProxyLeak):
            raise
        except Exception as e:  # noqa: the contract program itself failed on concrete data
            rep.errors.append(dict(kind="CrossCheck", msg=f"concrete run of a path model raised {type(e).__name__}: {e}", values=values,
                                   tb=traceback.format_exc(limit=6)))
            return
        finally:
            CUR = saved
        done["paths"] += 1
        proved = {name for (name, v, _, _, _, _) in st.results if v == "unsat"}
        bad = [c for c in cs.failed if c in proved]
        if bad and not cs.assume_failed:
            rep.errors.append(dict(kind="CrossCheck", msg="clauses discharged symbolically fail on the real code for a model of the same path: " + ", ".join(bad[:5]),
                                   values=values))
        else:
            done["agreed"] += 1

    def commit(self, st):
        rep = self.report
        for name, verdict, backend, secs, viol, sample in st.results:
            ob = rep.ob(name)
            ob.vcs += 1
            ob.solver_s += secs
            ob.backend[backend] = ob.backend.get(backend, 0) + 1
            if ob.sample is None and sample is not None:
                ob.sample = sample
            if verdict == "unsat":
                ob.discharged += 1
            elif verdict == "sat":
                ob.violations.append(viol)
            else:
                ob.undecided.append(dict(reason="solver unknown/timeout", decisions=list(st.decisions)))
        rep.notes["assumes_max_per_path"] = max(rep.notes.get("assumes_max_per_path", 0), st.n_assumes)
        cv = rep.notes.setdefault("covers", {})
        for c in st.covers:
            cv[c] = cv.get(c, 0) + 1

    def run(self, prefixes=None):
        global CUR
        t0 = time.time()
        self.stack = [list(p) for p in (prefixes or [[]])]
        rep = self.report
        while self.stack:
            if self.max_paths and rep.paths >= self.max_paths:
                rep.budget_hit = True
                break
            if self.deadline and time.time() > self.deadline:
                rep.budget_hit = True
                break
            prefix = self.stack.pop()
            for reset in RESETTERS:
                reset()
            st = PathState(self, prefix)
            CUR = st
            rep.paths += 1
            try:
                self.program(st)
                if len(st.decisions) < len(prefix):
                    raise ProxyLeak(f"non-deterministic re-execution: {len(prefix)} decisions recorded, {len(st.decisions)} replayed")
                if self.owns(st.branches):
                    self.commit(st)
                    if st.feasible():
                        rep.paths_completed += 1
                        self.crosscheck(st)
                else:
                    rep.paths -= 1
            except NotMine:
                rep.paths -= 1
            except Infeasible:
                rep.infeasible += 1
            except Budget:
                rep.aborted += 1
            except ProxyLeak as e:
                rep.errors.append(dict(kind="ProxyLeak", msg=str(e), decisions=list(st.decisions),
                                       tb=traceback.format_exc(limit=8)))
            except Exception as e:  # noqa: bug in the contract program itself
                rep.errors.append(dict(kind=type(e).__name__, msg=str(e), decisions=list(st.decisions),
                                       tb=traceback.format_exc(limit=8)))
                if type(e).__name__ in ("CutError", "ShapeError"):
                    # structural: the code no longer has the shape this contract program is written for; every other path would
                    # say the same, so the task stops here (and becomes inapplicable when it is marked leak_ok)
                    self.stack = []
            finally:
                st.cleanup()
                CUR = None
        rep.wall_s = time.time() - t0
        return rep


# ------------------------------------------------------------------------------------------------
# concrete mode (replay, cross-checks, float legs)

class ConcreteState:
    mode = "conc"

    def __init__(self, values, choices=None):
        self.values = values        # name -> number / bool (inputs of the model)
        self.failed = []            # names of ensure clauses that evaluated false
        self.passed = []
        self.assume_failed = []
        self.notes = {}
        self._cleanups = []
        self.fresh_n = 0

    def _get(self, name, default=0):
        v = self.values.get(name, default)
        if isinstance(v, str):
            v = Fraction(v)
        return v

    def real(self, name, pos=False, nonneg=False):
        v = self._get(name, 1 if pos else 0)
        return float(v)

    def int(self, name, lo=None, hi=None):
        return int(self._get(name, lo if lo is not None else 0))

    def symbool(self, name):
        return bool(self._get(name, False))

    bool = symbool

    def choice(self, name, options):
        options = list(options)
        if len(options) == 1:
            return options[0]
        return options[int(self._get(name, 0))]

    def assume(self, cond):
        if not cond:
            self.assume_failed.append(str(cond))

    def sqrt(self, x, complex_on_negative=False):
        return math.sqrt(x)

    def acos(self, x):
        return math.acos(x)

    def sin(self, x):
        return math.sin(x)

    def cos(self, x):
        return math.cos(x)

    def call(self, fn, *args, **kwargs):
        try:
            return Outcome(value=fn(*args, **kwargs))
        except Exception as e:  # noqa
            e._symx_tb = traceback.format_exc(limit=6)
            return Outcome(exc=e)

    patch = PathState.patch
    cleanup = PathState.cleanup

    def ensure(self, name, cond, note=None):
        if cond:
            self.passed.append(name)
            return True
        self.failed.append(name)
        return False

    def lemma(self, name, cond):
        return self.ensure(name, cond)

    def note(self, key, value):
        self.notes[key] = repr(value)

    def cover(self, name):
        pass

    def feasible(self):
        return not self.assume_failed


def run_concrete(program, values):
    """Run a contract program on concrete inputs against the real code. Returns the ConcreteState."""
    global CUR
    for reset in RESETTERS:
        reset()
    st = ConcreteState(values)
    old = CUR
    CUR = st
    try:
        program(st)
    finally:
        st.cleanup()
        CUR = old
    return st
