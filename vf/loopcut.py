"""
Loop cutting by source rewriting (DESIGN.md 2.7), used where iterations are NOT independent (a carried state).
havoc_before_loop(fn, loop_index, names) re-parses the CURRENT source of `fn`, inserts before its `loop_index`-th
top-level `for` loop one statement per carried variable

        <name> = __havoc__("<name>", <name>)

and compiles the result in the function's own module namespace.  Everything else is the repository's text.  With the
loop then run for ONE iteration (the caller passes an iteration count of 1) from an ARBITRARY state satisfying the
invariant, the obligations are the inductive step.  The rewrite (a unified diff against the original source) is
returned for the evidence.
"""
import ast
import difflib
import inspect
import textwrap


class CutError(Exception):
    pass


def havoc_before_loop(fn, loop_index, names, havoc):
    src = textwrap.dedent(inspect.getsource(fn))
    tree = ast.parse(src)
    fnode = tree.body[0]
    loops = [st for st in fnode.body if isinstance(st, ast.For)]
    if loop_index >= len(loops):
        raise CutError(f"{fn.__qualname__}: {len(loops)} top-level for-loops, loop {loop_index} wanted")
    loop = loops[loop_index]
    pos = fnode.body.index(loop)
    new = []
    for nm in names:
        new.append(ast.parse(f"{nm} = __havoc__({nm!r}, {nm})").body[0])
    fnode.body[pos:pos] = new
    fnode.decorator_list = []
    ast.fix_missing_locations(tree)
    code = compile(tree, filename=f"<loop-cut of {fn.__qualname__}>", mode="exec")
    ns = dict(fn.__globals__)
    ns["__havoc__"] = havoc
    exec(code, ns)
    cut = ns[fnode.name]
    new_src = ast.unparse(tree)
    diff = [l for l in difflib.unified_diff(ast.unparse(ast.parse(src)).splitlines(), new_src.splitlines(), lineterm="", n=0)
            if not l.startswith(("---", "+++"))]
    return cut, dict(function=fn.__qualname__, loop_line=loop.lineno, loop=ast.unparse(loop.iter), havocked=list(names),
                     dropped=[], inserted=[ast.unparse(n) for n in new], diff=diff)
