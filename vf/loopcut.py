"""
Loop cutting by source rewriting (DESIGN.md 2.7), used where iterations are NOT independent (a carried state).
havoc_before_loop(fn, loop_index, names) re-parses the CURRENT source of `fn`, inserts before its `loop_index`-th
top-level `for` loop one statement per carried variable

        <name> = __havoc__("<name>", <name>)

and compiles the result in the function's own module namespace.  Everything else is the repository's text.  With the
loop then run for ONE iteration (the caller passes an iteration count of 1) from an ARBITRARY state satisfying the
invariant, the obligations are the inductive step.  The rewrite (a unified diff against the original source) is
returned for the evidence.
"""
import ast
import difflib
import inspect
import textwrap


class CutError(Exception):
    pass


def havoc_before_loop(fn, loop_index, names, havoc):
    src = textwrap.dedent(inspect.getsource(fn))
    tree = ast.parse(src)
    fnode = tree.body[0]
    loops = [st for st in fnode.body if isinstance(st, ast.For)]
    if callable(loop_index):        # the loop is identified by its header, not by its position
        sel = [st for st in loops if loop_index(ast.unparse(st.target), ast.unparse(st.iter))]
        if len(sel) != 1:
            raise CutError(f"{fn.__qualname__}: {len(sel)} top-level for-loops match the wanted header")
        loop = sel[0]
    else:
        if loop_index >= len(loops):
            raise CutError(f"{fn.__qualname__}: {len(loops)} top-level for-loops, loop {loop_index} wanted")
        loop = loops[loop_index]
    pos = fnode.body.index(loop)
    new = []
    for nm in names:
        new.append(ast.parse(f"{nm} = __havoc__({nm!r}, {nm})").body[0])
    fnode.body[pos:pos] = new
    fnode.decorator_list = []
    ast.fix_missing_locations(tree)
    code = compile(tree, filename=f"<loop-cut of {fn.__qualname__}>", mode="exec")
    ns = dict(fn.__globals__)
    ns["__havoc__"] = havoc
    exec(code, ns)
    cut = ns[fnode.name]
    new_src = ast.unparse(tree)
    diff = [l for l in difflib.unified_diff(ast.unparse(ast.parse(src)).splitlines(), new_src.splitlines(), lineterm="", n=0)
            if not l.startswith(("---", "+++"))]
    return cut, dict(function=fn.__qualname__, loop_line=loop.lineno, loop=ast.unparse(loop.iter), havocked=list(names),
                     dropped=[], inserted=[ast.unparse(n) for n in new], diff=diff)


def one_arbitrary_iteration_of_range_loops(fn, arb):
    """Rewrites every `for <name> in range(<n>):` loop of `fn` (current source) into ONE iteration with an arbitrary index:

            <name> = __arb_index__("<name>", <n>)        # 0 <= index < n, otherwise arbitrary (symbolic)
            <body>

    Used for flat-map loops over index ranges whose iterations are independent (side condition checked by
    vf.loopshape on the same source): the body is then executed for an arbitrary index, symbolic bounds included."""
    src = textwrap.dedent(inspect.getsource(fn))
    tree = ast.parse(src)
    fnode = tree.body[0]
    rewritten = []

    class T(ast.NodeTransformer):
        def visit_For(self, node):
            self.generic_visit(node)
            it = node.iter
            if isinstance(it, ast.Call) and isinstance(it.func, ast.Name) and it.func.id == "range" and len(it.args) == 1 \
                    and isinstance(node.target, ast.Name) and not node.orelse:
                rewritten.append(dict(index=node.target.id, bound=ast.unparse(it.args[0]), line=node.lineno))
                assign = ast.parse(f"{node.target.id} = __arb_index__({node.target.id!r}, {ast.unparse(it.args[0])})").body[0]
                return [assign] + node.body
            return node
    fnode = T().visit(fnode)
    fnode.decorator_list = []
    tree.body[0] = fnode
    ast.fix_missing_locations(tree)
    if not rewritten:
        raise CutError(f"{fn.__qualname__}: no `for x in range(n)` loop to cut")
    code = compile(tree, filename=f"<loop-cut of {fn.__qualname__}>", mode="exec")
    ns = dict(fn.__globals__)
    ns["__arb_index__"] = arb
    exec(code, ns)
    new_src = ast.unparse(tree)
    diff = [l for l in difflib.unified_diff(ast.unparse(ast.parse(src)).splitlines(), new_src.splitlines(), lineterm="", n=0)
            if not l.startswith(("---", "+++"))]
    return ns[fnode.name], dict(function=fn.__qualname__, loops=rewritten, dropped=["iteration over all indices (one arbitrary index kept)"], diff=diff)


def one_iteration_of_while(fn, loop_index, havoc, result_names):
    """Cuts the `loop_index`-th `while` loop found at the top level of fn (current source):

            <every name in havoc(...)>  = __havoc__("<name>", <name>)     # arbitrary state satisfying the invariant
            if <loop condition>:
                <loop body>                                               # ONE iteration of the repository's text
            return __cut_result__({<result names>})                       # statements after the loop are dropped

    Nested loops inside the body are kept and run to completion."""
    src = textwrap.dedent(inspect.getsource(fn))
    tree = ast.parse(src)
    fnode = tree.body[0]
    loops = [st for st in fnode.body if isinstance(st, ast.While)]
    if callable(loop_index):        # the loop is identified by its condition, not by its position
        sel = [st for st in loops if loop_index(ast.unparse(st.test))]
        if len(sel) != 1:
            raise CutError(f"{fn.__qualname__}: {len(sel)} top-level while-loops match the wanted condition (loops: {[ast.unparse(l.test) for l in loops]})")
        loop = sel[0]
    else:
        if loop_index >= len(loops):
            raise CutError(f"{fn.__qualname__}: {len(loops)} top-level while-loops, loop {loop_index} wanted")
        loop = loops[loop_index]
    pos = fnode.body.index(loop)
    hv = [ast.parse(f"{nm} = __havoc__({nm!r}, {nm})").body[0] for nm in havoc]
    once = ast.If(test=loop.test, body=loop.body, orelse=[])
    ret = ast.parse("return __cut_result__({" + ", ".join(f"{n!r}: {n}" for n in result_names) + "})").body[0]
    dropped = [ast.unparse(s)[:100] for s in fnode.body[pos + 1:]]
    fnode.body = fnode.body[:pos] + hv + [once, ret]
    fnode.decorator_list = []
    ast.fix_missing_locations(tree)
    code = compile(tree, filename=f"<loop-cut of {fn.__qualname__}>", mode="exec")
    return code, dict(function=fn.__qualname__, loop_line=loop.lineno, condition=ast.unparse(loop.test), havocked=list(havoc),
                      dropped=dropped, body=[ast.unparse(s)[:120] for s in loop.body])


def one_iteration_of_nested_while(fn, cond_pred, havoc, restrict_for=None):
    """Cuts the unique `while` loop of fn (current source, at any nesting depth) whose condition satisfies cond_pred:

            <name> = __havoc__("<name>", <name>, dict(locals()))   # for every carried name: arbitrary state satisfying the
                                                                    # invariant (the hook also checks the invariant on the
                                                                    # entry state it is handed: the base case)
            if <loop condition>:
                <loop body>                                         # ONE iteration of the repository's text

    With restrict_for=pred, every `for` loop that encloses the cut loop and whose iterable text satisfies pred gets its iterable wrapped,
    `for d in __restrict__(<iterable>)`, so that the caller can run ONE chosen iteration of an enclosing loop (the
    iterations it skips are replaced by the caller's invariant on the state they would have produced).

    Everything after the loop is kept: it runs from `invariant and not condition` (exit) and, superfluously, from the
    state after one iteration.  Whatever the contract asserts at the end therefore has to hold at loop exit for ANY
    number of iterations provided it is implied by the invariant, and is the inductive step for the invariant itself."""
    src = textwrap.dedent(inspect.getsource(fn))
    tree = ast.parse(src)
    fnode = tree.body[0]
    found = []

    class T(ast.NodeTransformer):
        def visit_While(self, node):
            self.generic_visit(node)
            if not cond_pred(ast.unparse(node.test)):
                return node
            if node.orelse:
                raise CutError(f"{fn.__qualname__}: while-else is not handled")
            for sub in ast.walk(node):
                if isinstance(sub, (ast.Break, ast.Continue)):
                    raise CutError(f"{fn.__qualname__}: break/continue inside the loop to cut")
            found.append(node)
            names = havoc
            if havoc == "auto":
                # carried variables: assigned in the loop body AND (read by the loop condition OR assigned before in the function)
                stored = []
                for st in node.body:
                    for sub in ast.walk(st):
                        if isinstance(sub, ast.Name) and isinstance(sub.ctx, ast.Store) and sub.id not in stored:
                            stored.append(sub.id)
                        if isinstance(sub, ast.Subscript) and isinstance(sub.ctx, ast.Store):
                            base = sub.value
                            while isinstance(base, ast.Subscript):
                                base = base.value
                            if isinstance(base, ast.Name) and base.id not in stored:
                                stored.append(base.id)
                in_test = {n.id for n in ast.walk(node.test) if isinstance(n, ast.Name)}
                names = [nm for nm in stored if nm in in_test or nm in assigned_before(node)]
            auto_names.extend(names)
            hv = [ast.parse(f"{nm} = __havoc__({nm!r}, {nm}, dict(locals()))").body[0] for nm in names]
            return hv + [ast.If(test=node.test, body=node.body, orelse=[])]

        def visit_For(self, node):
            before = len(found)
            self.generic_visit(node)
            # only a loop that ENCLOSES the cut while-loop is restricted
            if restrict_for is not None and len(found) > before and restrict_for(ast.unparse(node.iter)):
                restricted.append(ast.unparse(node.iter))
                for_targets.append(ast.unparse(node.target))
                node.iter = ast.Call(func=ast.Name(id="__restrict__", ctx=ast.Load()), args=[node.iter], keywords=[])
            return node
    restricted, for_targets, auto_names = [], [], []
    orig = ast.parse(src).body[0]

    def assigned_before(loop):
        """names stored anywhere in the function before the line of the loop (parameters included)"""
        out = {a.arg for a in orig.args.args}
        for sub in ast.walk(orig):
            if isinstance(sub, ast.Name) and isinstance(sub.ctx, ast.Store) and sub.lineno < loop.lineno:
                out.add(sub.id)
        return out
    fnode = T().visit(fnode)
    if len(found) != 1:
        raise CutError(f"{fn.__qualname__}: {len(found)} while-loops match the wanted condition")
    fnode.decorator_list = []
    tree.body[0] = fnode
    ast.fix_missing_locations(tree)
    code = compile(tree, filename=f"<loop-cut of {fn.__qualname__}>", mode="exec")
    loop = found[0]
    return code, dict(function=fn.__qualname__, loop_line=loop.lineno, condition=ast.unparse(loop.test), havocked=list(auto_names),
                      for_targets=for_targets,
                      dropped=["iterations 2.. of the loop (one arbitrary iteration from an arbitrary invariant state kept)"] +
                              [f"iterations of `for .. in {r}` other than the one selected by the caller" for r in restricted],
                      restricted=restricted, body=[ast.unparse(s)[:120] for s in loop.body])


def instantiate(code, fn, havoc_fn, result_fn=lambda d: d, restrict_fn=lambda it: it):
    ns = dict(fn.__globals__)
    ns["__havoc__"] = havoc_fn
    ns["__cut_result__"] = result_fn
    ns["__restrict__"] = restrict_fn
    exec(code, ns)
    return ns[fn.__name__]
